"""C03 Mesh, bivincular, vincular and covincular occurrences in permutations are exact."""
import itertools

from permuta import BivincularPatt, CovincularPatt, MeshPatt, Perm, VincularPatt
from permuta.patterns.patt import Patt

from .. import monitor
from ..conv import dec, enc
from ..oracle import classical as C
from ..oracle import mesh as M

ID = "C03"
RULE = (
    "Monitors on MeshPatt.occurrences_in / BivincularPatt.occurrences_in (generator proxies), the bivincular "
    "constructors (requirements recorded), Perm.contains/avoids/avoids_set/__contains__/_contains and "
    "Patt.count_occurrences_in/contained_in/avoided_by with mesh-type arguments. Oracle: every classical occurrence "
    "(census) is kept iff no other point falls in a shaded cell of the grid through it (cell = #occurrence positions "
    "to the left, #occurrence values below); bivincular-type patterns additionally by the adjacency definition "
    "written on positions/values (not via shading). Exhaustive small patterns x texts + sparse random. "
    "Non-trivial = distinct (pattern, text) with shading non-empty and >=1 classical occurrence rejected by the shading."
)
ASSUMPTIONS = ["oracle: vf/oracle/mesh.py + classical.py, independent of permuta"]
REQUIRED = ["derived.copies", 
    "calls.MeshPatt.occurrences_in", "calls.BivincularPatt.occurrences_in", "calls.Perm.contains", "calls.Perm.avoids",
    "calls.Perm.avoids_set", "calls.Perm.__contains__", "calls.BivincularPatt.__init__", "biv.adjacency_checked",
    "mixed.checked", "nontrivial.accept_and_reject", "boundary_cell_decisive", "roundtrip.requirements", "derived.objects", "aliasing.requirements_mutated", "random_classmethod.patterns",
]
MIN_NONTRIVIAL = 500
CTX = None
MON = None
REACH = None


def report(check, args, detail):
    CTX.fail(check, args, detail)


def done_occ(args, kwargs, items, exhausted, exc):
    self, patt = args[0], args[1]
    if not isinstance(patt, Perm) or not isinstance(self, MeshPatt):
        return
    p, S, t = tuple(self.pattern), frozenset(self.shading), tuple(patt)
    case = ("pair", [enc(self), list(t)])
    if exc is not None:
        report(*case, f"occurrences_in raised {exc!r}")
        return
    classical = C.occ_cached(p, t)
    want = [o for o in classical if M.occurrence_ok(S, t, o)]
    items = [tuple(i) for i in items]
    CTX.ev()
    ok = items == want if exhausted else items == want[: len(items)]
    if not ok:
        report(*case, f"{type(self).__name__} ({p}, {sorted(S)}) in {t}: got {items[:10]} want {want[:10]} "
               f"(|got|={len(items)} |want|={len(want)} exhausted={exhausted})")
    adj = getattr(self, "_vf_adj", None)
    if adj is not None and exhausted:
        CTX.count("biv.adjacency_checked")
        CTX.ev()
        want2 = M.biv_occurrences(p, adj[0], adj[1], t)
        if items != want2:
            report(*case, f"{type(self).__name__}({p}, idx={adj[0]}, val={adj[1]}) in {t}: got {items[:10]}, adjacency definition gives {want2[:10]}")
    if S and len(want) < len(classical):
        CTX.nt((p, tuple(sorted(S)), t))
        if want:
            CTX.count("nontrivial.accept_and_reject")
        k = len(p)
        if any(x in (0, k) or y in (0, k) for (x, y) in S):
            inner = frozenset(c for c in S if c[0] not in (0, k) and c[1] not in (0, k))
            if len([o for o in classical if M.occurrence_ok(inner, t, o)]) != len(want):
                CTX.count("boundary_cell_decisive")
    CTX.rsample({"pattern": enc(self), "text": list(t), "classical": len(classical), "mesh": len(want)}, 0.0003)


def post_init(args, kwargs, res, exc):
    self = args[0]
    if exc is not None:
        return
    cls = type(self)
    ai = av = None
    rest = args[2:]
    if cls is BivincularPatt and len(rest) == 2:
        ai, av = rest
    elif cls is VincularPatt and len(rest) == 1:
        ai, av = rest[0], ()
    elif cls is CovincularPatt and len(rest) == 1:
        ai, av = (), rest[0]
    if isinstance(ai, (list, tuple, set, frozenset)) and isinstance(av, (list, tuple, set, frozenset)):
        self._vf_adj = (sorted(set(ai)), sorted(set(av)))
        CTX.ev()
        want = M.biv_shading(len(args[1]), ai, av)
        if frozenset(self.shading) != want:
            report("biv", [list(args[1]), list(ai), list(av), cls.__name__], f"shading {sorted(self.shading)} != requirement shading {sorted(want)}")


def _plainpatts(patts):
    out = []
    for q in patts:
        if isinstance(q, Perm):
            out.append(tuple(q))
        elif isinstance(q, MeshPatt):
            out.append((tuple(q.pattern), frozenset(q.shading)))
        else:
            return None
    return out


def post_bool(label, fn, getp):
    def post(args, kwargs, res, exc):
        self = args[0]
        patts = getp(args)
        if patts is None or not isinstance(self, Perm):
            return
        pl = _plainpatts(patts)
        if pl is None:
            return
        if not any(isinstance(q, MeshPatt) for q in patts):
            return  # purely classical calls are C01's business
        t = tuple(self)
        CTX.ev()
        CTX.count("mixed.checked")
        want = fn(M.patt_contained(t, q) for q in pl)
        if exc is not None or res is not want:
            report("mixed", [list(t), [enc(q) for q in patts]], f"{label}: {t} vs {[enc(q) for q in patts]} = {res!r} ({exc!r}), want {want}")
    return post


def post_count_in(args, kwargs, res, exc):
    self, patt = args[0], args[1]
    if not (isinstance(self, MeshPatt) and isinstance(patt, Perm)):
        return
    CTX.ev()
    want = len(M.occurrences(tuple(self.pattern), frozenset(self.shading), tuple(patt)))
    if exc is not None or res != want:
        report("pair", [enc(self), list(patt)], f"count_occurrences_in = {res!r} ({exc!r}), want {want}")


def post_in_all(label, neg):
    def post(args, kwargs, res, exc):
        self, others = args[0], args[1:]
        if not isinstance(self, MeshPatt) or not all(isinstance(o, Perm) for o in others):
            return
        CTX.ev()
        p, S = tuple(self.pattern), frozenset(self.shading)
        want = all(M.contains(tuple(o), p, S) != neg for o in others)
        if exc is not None or res is not want:
            report("pair", [enc(self), list(others[0]) if others else []], f"{label}({[tuple(o) for o in others]}) = {res!r} ({exc!r}), want {want}")
    return post


def setup(ctx):
    global CTX, MON, REACH
    CTX = ctx
    MON = m = monitor.Monitors(ctx)
    REACH = monitor.Reach()
    REACH.add("MeshPatt._occurrences_in_perm", MeshPatt.__dict__["_occurrences_in_perm"])
    REACH.add("BivincularPatt._to_shading", BivincularPatt.__dict__["_to_shading"])
    m.wrap_gen(MeshPatt, "occurrences_in", done_occ)
    m.wrap_gen(BivincularPatt, "occurrences_in", done_occ)
    m.wrap(BivincularPatt, "__init__", post_init)
    m.wrap(Perm, "contains", post_bool("contains", all, lambda a: a[1:]))
    m.wrap(Perm, "_contains", post_bool("_contains", all, lambda a: a[1:2]))
    m.wrap(Perm, "__contains__", post_bool("__contains__", all, lambda a: a[1:2]))
    m.wrap(Perm, "avoids", post_bool("avoids", lambda g: not any(g), lambda a: a[1:]))
    m.wrap(Perm, "avoids_set", post_bool("avoids_set", lambda g: not any(g),
                                         lambda a: tuple(a[1]) if isinstance(a[1], (list, tuple, set, frozenset)) else None))
    m.wrap(Patt, "count_occurrences_in", post_count_in)
    m.wrap(Patt, "contained_in", post_in_all("contained_in", False))
    m.wrap(Patt, "avoided_by", post_in_all("avoided_by", True))
    REACH.start()


def teardown(ctx):
    REACH.stop()
    REACH.report(ctx)
    MON.uninstall()


# ---- replayable checks ------------------------------------------------------------------------
def _pair(Mp, T, full=True):
    occ = list(Mp.occurrences_in(T))
    res = (T.contains(Mp), T.avoids(Mp))
    CTX.ev()
    if res != (bool(occ), not occ):
        report("pair", [enc(Mp), list(T)], f"contains/avoids {res} disagree with listing of {len(occ)}")
    if full:
        res = (Mp in T, T.avoids_set([Mp]), Mp.count_occurrences_in(T), Mp.contained_in(T), Mp.avoided_by(T),
               T.count_occurrences_of(Mp), len(list(T.occurrences_of(Mp))))
        CTX.ev()
        want = (bool(occ), not occ, len(occ), bool(occ), not occ, len(occ), len(occ))
        if res != want:
            report("pair", [enc(Mp), list(T)], f"entry points {res} disagree with listing {want}")


def chk_pair(ctx, m, t):
    _pair(dec(m), Perm(t))


def chk_biv(ctx, p, ai, av, cls):
    """constructor + requirement round trip + repr round trip for one requirement set"""
    P = Perm(p)
    if cls == "VincularPatt":
        av = []
    elif cls == "CovincularPatt":
        ai = []
    if cls == "BivincularPatt":
        B = BivincularPatt(P, list(ai), list(av))
    elif cls == "VincularPatt":
        B = VincularPatt(P, list(ai))
    else:
        B = CovincularPatt(P, list(av))
    gi, gv = B.get_adjacent_requirements()
    ctx.ev()
    ctx.count("roundtrip.requirements")
    if not (set(ai) <= set(gi) and set(av) <= set(gv)):
        report("biv", [p, ai, av, cls], f"get_adjacent_requirements {gi, gv} loses requirements {ai, av}")
    B2 = BivincularPatt(P, gi, gv)
    if not (B2 == B and B == B2 and frozenset(B2.shading) == frozenset(B.shading)):
        report("biv", [p, ai, av, cls], f"requirements {gi, gv} do not rebuild the pattern")
    # aliasing: a caller that edits the returned requirement lists must not change what the pattern matches
    gi2, gv2 = B.get_adjacent_requirements()
    gi2.clear(), gv2.clear()
    gi2.append(0), gv2.append(len(P))
    CTX.count("aliasing.requirements_mutated")
    for T in (Perm(t) for t in itertools.islice(itertools.permutations(range(min(4, len(P) + 2))), 6)):
        _pair(B, T, full=False)
    # the same requirements in another order and with repetitions: same pattern, same searches
    ri, rv = list(reversed(list(ai))) + list(ai)[:1], list(reversed(list(av))) + list(av)[-1:]
    B4 = BivincularPatt(P, ri, rv) if cls == "BivincularPatt" else VincularPatt(P, tuple(ri)) if cls == "VincularPatt" else CovincularPatt(P, tuple(rv))
    ctx.ev()
    ctx.count("roundtrip.reordered_requirements")
    if not (B4 == B and hash(B4) == hash(B)):
        report("biv", [p, ai, av, cls], f"requirements given as {ri, rv} (another order / repeated) give a different pattern than {list(ai), list(av)}")
    for T in (Perm(t) for t in itertools.islice(itertools.permutations(range(min(4, len(P) + 2))), 10)):
        _pair(B4, T, full=False)
    # the same requirements handed over as one-shot iterables (generators, iter, map): same pattern, same searches
    if cls == "BivincularPatt":
        B3 = BivincularPatt(P, iter(list(ai)), (v for v in av))
    elif cls == "VincularPatt":
        B3 = VincularPatt(P, map(int, list(ai)))
    else:
        B3 = CovincularPatt(P, iter(list(av)))
    ctx.ev()
    if not (B3 == B and hash(B3) == hash(B)):
        report("biv", [p, ai, av, cls], "a pattern built from one-shot iterables differs from the one built from lists")
    for T in (Perm(t) for t in itertools.islice(itertools.permutations(range(min(4, len(P) + 1))), 8)):
        _pair(B3, T, full=False)
    E = eval(repr(B), {"BivincularPatt": BivincularPatt, "VincularPatt": VincularPatt, "CovincularPatt": CovincularPatt, "Perm": Perm})
    if not (E == B and type(E) is type(B)):
        report("biv", [p, ai, av, cls], f"eval(repr) gives {E!r} for {B!r}")
    return B


def chk_mixed(ctx, t, patts):
    T = Perm(t)
    PS = [dec(q) for q in patts]
    T.contains(*PS)
    T.avoids(*PS)
    T.avoids_set(PS)
    T.avoids_set(tuple(PS))
    for q in PS[:3]:
        q in T


def chk_derived(ctx, m, t):
    """patterns obtained through the API (symmetries, shade, sub-patterns, point insertion) are searched for after
    their parent has been searched for; each search is judged by the monitors on the derived object's own value"""
    Mp, T = dec(m), Perm(t)
    _pair(Mp, T, full=False)
    k = len(Mp)
    cells = [(x, y) for x in range(k + 1) for y in range(k + 1)]
    import copy
    import pickle

    derived = [Mp.rotate(ctx.rng.randint(1, 3)), Mp.inverse(), Mp.complement().reverse(), Mp.shade(ctx.rng.choice(cells))]
    # copies of the (already used) pattern object: same value, so the same occurrences
    derived += [pickle.loads(pickle.dumps(Mp)), copy.copy(Mp), copy.deepcopy(Mp)]
    ctx.count("derived.copies")
    if k:
        derived.append(Mp.sub_mesh_pattern(sorted(ctx.rng.sample(range(k), ctx.rng.randint(0, k)))))
    free = [c for c in cells if c not in Mp.shading]
    if free and k <= 3:
        derived.append(Mp.add_point(ctx.rng.choice(free)))
    for D in derived:
        ctx.count("derived.objects")
        for TT in (T, T.rotate(), T.inverse()):
            _pair(D, TT, full=False)
    _pair(Mp, T, full=True)


CHECKS = {"pair": chk_pair, "biv": chk_biv, "mixed": chk_mixed, "derived": chk_derived}


# ---- workload -----------------------------------------------------------------------------------
def plan(tier, seed):
    specs = []
    nmax = 5 if tier == "quick" else 6
    # mesh patterns of length <= 2, every shading
    specs.append({"name": "mesh-k0-1", "kind": "mesh", "perms": [[], [0]], "nmax": nmax, "part": 0, "parts": 1})
    parts = 8 if tier == "quick" else 16
    for part in range(parts):
        specs.append({"name": f"mesh-k2-{part}", "kind": "mesh", "perms": [[0, 1], [1, 0]], "nmax": nmax, "part": part, "parts": parts})
    for k in ([0, 1, 2, 3] if tier == "thorough" else [0, 1, 2]):
        pl = list(itertools.permutations(range(k)))
        for p in pl:
            specs.append({"name": f"biv-{''.join(map(str, p)) or 'e'}", "kind": "biv", "perm": list(p), "nmax": nmax})
    if tier == "quick":
        specs.append({"name": "biv-k3-sample", "kind": "bivsample", "count": 300, "nmax": 5})
    nrand = 3200 if tier == "quick" else 100000
    for i in range(16):
        specs.append({"name": f"rand-{i}", "kind": "rand", "count": nrand // 16, "nmax": 8})
    return specs


def texts_upto(n):
    return [Perm(t) for j in range(n + 1) for t in itertools.permutations(range(j))]


def run(ctx, spec):
    rng = ctx.rng
    if spec["kind"] == "mesh":
        texts = texts_upto(spec["nmax"])
        i = 0
        for p in spec["perms"]:
            for S in M.all_shadings(len(p)):
                i += 1
                if i % spec["parts"] != spec["part"]:
                    continue
                Mp = MeshPatt(Perm(p), S)
                for T in texts:
                    _pair(Mp, T, full=len(T) <= 4)
        ctx.note(f"exhaustive: every shading of {spec['perms']} x S_0..S_{spec['nmax']} (part {spec['part']}/{spec['parts']})")
    elif spec["kind"] == "biv":
        p = spec["perm"]
        k = len(p)
        texts = texts_upto(spec["nmax"])
        subsets = [list(c) for r in range(k + 2) for c in itertools.combinations(range(k + 1), r)]
        for ai in subsets:
            for av in subsets:
                B = chk_biv(ctx, p, ai, av, "BivincularPatt")
                for T in texts:
                    _pair(B, T, full=False)
            for T in texts[:: 3]:
                _pair(chk_biv(ctx, p, ai, [], "VincularPatt"), T, full=False)
                _pair(chk_biv(ctx, p, [], ai, "CovincularPatt"), T, full=False)
        ctx.note(f"exhaustive: every requirement pair for {p} x S_0..S_{spec['nmax']}")
    elif spec["kind"] == "bivsample":
        texts = texts_upto(spec["nmax"])
        for _ in range(spec["count"]):
            p = rng.sample(range(3), 3)
            ai = [x for x in range(4) if rng.random() < 0.3]
            av = [x for x in range(4) if rng.random() < 0.3]
            cls = rng.choice(["BivincularPatt", "VincularPatt", "CovincularPatt"])
            B = chk_biv(ctx, p, ai, av, cls)
            for T in rng.sample(texts, 40):
                _pair(B, T, full=False)
    else:
        import random as _random
        for _ in range(spec["count"] // 10):
            _random.seed(rng.randrange(10 ** 9))
            R = rng.choice([BivincularPatt, VincularPatt, CovincularPatt, MeshPatt]).random(rng.randint(1, 3))
            ctx.count("random_classmethod.patterns")
            for _ in range(4):
                n = rng.randint(len(R), 6)
                _pair(R, Perm(rng.sample(range(n), n)), full=False)
        for _ in range(spec["count"]):
            k = rng.choice([1, 2, 3, 3, 4, 4])
            n = rng.randint(k, spec["nmax"])
            p = rng.sample(range(k), k)
            dens = rng.choice([0.05, 0.1, 0.25, 0.5])
            S = [(x, y) for x in range(k + 1) for y in range(k + 1) if rng.random() < dens]
            t = rng.sample(range(n), n)
            if rng.random() < 0.6:  # plant the classical pattern
                pos = sorted(rng.sample(range(n), k))
                vals = sorted(t[i] for i in pos)
                for j, i in enumerate(pos):
                    t[i] = vals[p[j]]
            Mp = MeshPatt(Perm(p), S)
            _pair(Mp, Perm(t), full=rng.random() < 0.3)
            if rng.random() < 0.2:
                chk_derived(ctx, enc(Mp), t)
            if rng.random() < 0.3:
                others = []
                for _ in range(rng.randint(1, 3)):
                    kk = rng.randint(1, 3)
                    q = rng.sample(range(kk), kk)
                    c = rng.randrange(4)
                    if c == 0:
                        others.append(q)
                    elif c == 1:
                        others.append(enc(MeshPatt(Perm(q), [(x, y) for x in range(kk + 1) for y in range(kk + 1) if rng.random() < 0.2])))
                    elif c == 2:
                        others.append(enc(VincularPatt(Perm(q), [x for x in range(kk + 1) if rng.random() < 0.3])))
                    else:
                        others.append(enc(BivincularPatt(Perm(q), [x for x in range(kk + 1) if rng.random() < 0.3], [x for x in range(kk + 1) if rng.random() < 0.3])))
                others.append(enc(Mp))
                rng.shuffle(others)
                chk_mixed(ctx, t, others)
        ctx.sample({"kind": "random", "pattern": enc(Mp), "text": t})
