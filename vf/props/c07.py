"""C07 Concurrent queries on a permutation class are correct under every interleaving."""
import _thread
import itertools
import random
import sys
import threading
import time
import traceback
import types

from permuta import Av, MeshPatt, Perm
from permuta.perm_sets import permset as PS

from .. import avmodel, monitor
from ..conv import dec, enc, plain

ID = "C07"
RULE = (
    "Multi-threaded cases: 2-4 threads released by a barrier issue 4-8 queries each (count, of_length, membership, "
    "up_to_length, fresh Av(equal basis)) for different lengths on one shared, freshly created class, under "
    "sys.setswitchinterval(1e-6) and a sys.monitoring LINE callback that injects a seeded sleep(0) at every statement "
    "of perm_sets/permset.py (probability per case in {0.05,0.3,0.7}). Oracle: every operation's result equals the "
    "sequential reference answer (brute-force avoiders), no exception in any thread, and a hook around "
    "Av._ensure_level (which runs inside the class's own critical section) checks that every built level is complete. "
    "A lock proxy and the hook record acquisition order, overlaps and which levels each activation built. "
    "Non-trivial = distinct cases in which >=2 threads requested a level that was missing when the case started; "
    "distinct interleavings = distinct sequences of (thread, levels built)."
)
ASSUMPTIONS = [
    "interleavings are sampled (statement granularity, one CPython build), not enumerated",
    "a hang is a violation only if every live thread is blocked acquiring the cache lock; any other watchdog expiry is inconclusive",
]
REQUIRED = ["cases", "ops.decided", "yields.injected", "hook.activations", "cases.racy", "max.distinct_interleavings", "cases.registry_churn", "ops.clear_cache_concurrent", "cases.raw_threads", "cases.deep"]
MIN_NONTRIVIAL = 20
WATCHDOG = {"quick": 900, "thorough": 3 * 3600}
CTX = None
MON = None
MLOCK = threading.Lock()
STATE = {"p": 0.3, "rng": random.Random(0), "yields": 0, "events": [], "active": {}, "overlap": 0, "clock": 0, "unlocked": 0}
NMAX = 7
TOOL = 4


# ---- instrumentation --------------------------------------------------------------------------------------
def permset_codes():
    out = []

    def rec(c):
        out.append(c)
        for k in c.co_consts:
            if isinstance(k, types.CodeType):
                rec(k)

    for name, val in vars(PS.Av).items():
        fn = getattr(val, "__vf_original__", val)
        fn = getattr(fn, "__func__", fn)
        if isinstance(fn, types.FunctionType) and fn.__code__.co_filename.endswith("permset.py"):
            rec(fn.__code__)
    return out


def on_line(code, line):
    if STATE["rng"].random() < STATE["p"]:
        STATE["yields"] += 1
        time.sleep(0)


class LockProxy:
    """Records who holds Av._CACHE_LOCK; delegates to the real lock."""

    def __init__(self, real):
        self.real = real
        self.owner = None

    def acquire(self, *a, **k):
        got = self.real.acquire(*a, **k)
        if got:
            self.owner = threading.get_ident()
            with MLOCK:
                STATE["clock"] += 1
                CTX.counters["lock.acquisitions"] += 1
        return got

    def release(self):
        self.owner = None
        self.real.release()

    def __enter__(self):
        self.acquire()
        return self

    def __exit__(self, *a):
        self.release()

    def __getattr__(self, name):
        # whatever else the real object offers (a Condition's wait / notify_all, an RLock's internals, ...) goes to it unchanged
        real = object.__getattribute__(self, "real")
        attr = getattr(real, name)
        if name in ("wait", "wait_for"):
            def waiting(*a, **k):
                self.owner = None  # waiting gives the lock up; it is ours again when the call returns
                try:
                    return attr(*a, **k)
                finally:
                    self.owner = threading.get_ident()
            return waiting
        return attr


def make_ensure_hook(orig):
    def hooked(self, level_number, *extra, **kwextra):
        tid = threading.get_ident()
        key = id(self)
        with MLOCK:
            n = STATE["active"].get(key, 0)
            STATE["active"][key] = n + 1
            if n:
                STATE["overlap"] += 1
            lock = getattr(PS.Av, "_CACHE_LOCK", None)
            if getattr(lock, "owner", tid) != tid:
                STATE["unlocked"] += 1
            before = len(self.cache)
        try:
            return orig(self, level_number, *extra, **kwextra)
        finally:
            after = len(self.cache)
            bad = None
            try:
                raw = [plain(b) for b in self.basis]
                top = min(after - 1, NMAX)
                lv = avmodel.levels(raw, top)
                if after <= level_number:
                    bad = f"_ensure_level({level_number}) returned with only {after} levels"
                for n in range(top + 1):
                    keys = set(map(tuple, self.cache[n].keys()))
                    if keys != lv[n]:
                        bad = f"level {n} incomplete/wrong when _ensure_level({level_number}) returned: {len(keys)} keys, avoiders {len(lv[n])}"
                        break
            except Exception as exc:  # another thread is mutating the cache under our feet
                bad = f"cache not readable when _ensure_level({level_number}) returned: {exc!r}"
            with MLOCK:
                STATE["active"][key] -= 1
                STATE["events"].append((tid, before, after))
                CTX.counters["hook.activations"] += 1
                if bad:
                    STATE.setdefault("hookfail", []).append(bad)

    hooked.__vf_original__ = orig
    return hooked


def setup(ctx):
    global CTX
    CTX = ctx
    sys.setswitchinterval(1e-6)
    STATE["orig_ensure"] = PS.Av.__dict__["_ensure_level"]
    PS.Av._ensure_level = make_ensure_hook(STATE["orig_ensure"])
    STATE["orig_lock"] = getattr(PS.Av, "_CACHE_LOCK", None)  # optional: a refactoring may organise its locks differently
    if STATE["orig_lock"] is not None:
        PS.Av._CACHE_LOCK = LockProxy(STATE["orig_lock"])
    else:
        ctx.counters["lock.proxy_not_installed"] = 1
    mon = sys.monitoring
    mon.use_tool_id(TOOL, "vf-yield")
    mon.register_callback(TOOL, mon.events.LINE, on_line)
    STATE["codes"] = permset_codes()
    for c in STATE["codes"]:
        mon.set_local_events(TOOL, c, mon.events.LINE)
    ctx.counters["instrumented_code_objects"] = len(STATE["codes"])


def teardown(ctx):
    mon = sys.monitoring
    for c in STATE["codes"]:
        mon.set_local_events(TOOL, c, 0)
    mon.register_callback(TOOL, mon.events.LINE, None)
    mon.free_tool_id(TOOL)
    PS.Av._ensure_level = STATE["orig_ensure"]
    if STATE["orig_lock"] is not None:
        PS.Av._CACHE_LOCK = STATE["orig_lock"]
    sys.setswitchinterval(0.005)


# ---- one multi-threaded case --------------------------------------------------------------------------------
def expected(raw, lv, op):
    kind = op[0]
    if kind == "clear":
        return None
    if kind in ("count", "fresh_count"):
        return len(lv[op[1]])
    if kind == "of_length":
        return sorted(lv[op[1]])
    if kind == "in":
        return avmodel.member(raw, tuple(op[1]))
    if kind == "up_to":
        return sorted(t for l in lv[: op[1] + 1] for t in l)
    raise ValueError(kind)


def perform(av, patts, op):
    kind = op[0]
    if kind == "clear":  # the registry of classes is emptied while other threads create handles from equal bases
        CTX.counters["ops.clear_cache_concurrent"] += 1
        return Av.clear_cache()
    if kind == "count":
        return av.count(op[1])
    if kind == "fresh_count":
        return Av(list(patts)).count(op[1])
    if kind == "of_length":
        return sorted(tuple(p) for p in av.of_length(op[1]))
    if kind == "in":
        return Perm(op[1]) in av
    if kind == "up_to":
        got = [tuple(p) for p in av.up_to_length(op[1])]
        if [len(g) for g in got] != sorted(len(g) for g in got):
            return "not in length order"
        return sorted(got)


class _RawThread:
    """a thread started through the low-level _thread module: it has no threading.Thread object, so it is invisible to
    threading.active_count() / enumerate() (as are threads created by C extensions)"""

    def __init__(self, target, args):
        self.target, self.args = target, args
        self.done = _thread.allocate_lock()
        self.done.acquire()
        self.ident = None

    def _run(self):
        self.ident = _thread.get_ident()
        try:
            self.target(*self.args)
        finally:
            self.done.release()

    def start(self):
        _thread.start_new_thread(self._run, ())

    def join(self, timeout):
        if self.done.acquire(timeout=timeout):
            self.done.release()

    def is_alive(self):
        if self.done.acquire(False):
            self.done.release()
            return False
        return True


class _Gate:
    """start line for the threads of a case (no threading.Thread machinery involved)"""

    def __init__(self, n):
        self.n, self.arrived, self.lock = n, 0, _thread.allocate_lock()

    def wait(self, timeout=60):
        with self.lock:
            self.arrived += 1
        t0 = time.time()
        while self.arrived < self.n:
            if time.time() - t0 > timeout:
                raise threading.BrokenBarrierError
            time.sleep(0)


def catalan(n):
    import math

    return math.comb(2 * n, n) // (n + 1)


def chk_case(ctx, raw_enc, programs, p_yield, seed, raw_threads=False, sizes=None):
    """programs: one operation list per thread.  raw_threads: start them through _thread.  sizes: level sizes known in
    closed form (deep cases, beyond the brute-force bound: only count operations are issued then)."""
    patts = [dec(q) for q in raw_enc]
    raw = [plain(q) for q in patts]
    lv = avmodel.levels(raw, NMAX)  # precomputed before the threads start
    Av.clear_cache()
    av = Av(list(patts))
    STATE.update(p=p_yield, rng=random.Random(seed), events=[], active={}, overlap=0, unlocked=0)
    STATE.pop("hookfail", None)
    y0 = STATE["yields"]
    nthreads = len(programs)
    barrier = _Gate(nthreads)
    results = [[] for _ in range(nthreads)]

    def body(i):
        try:
            barrier.wait(timeout=60)
        except threading.BrokenBarrierError:
            return
        for op in programs[i]:
            try:
                results[i].append((op, perform(av, patts, op), None))
            except BaseException as exc:  # an exception in a query is itself a violation
                results[i].append((op, None, "".join(traceback.format_exception_only(type(exc), exc)).strip()
                                   + " @ " + " <- ".join(f"{f.name}:{f.lineno}" for f in traceback.extract_tb(exc.__traceback__)[-3:])))

    if raw_threads:
        threads = [_RawThread(body, (i,)) for i in range(nthreads)]
        ctx.counters["cases.raw_threads"] += 1
    else:
        threads = [threading.Thread(target=body, args=(i,), daemon=True) for i in range(nthreads)]
    for t in threads:
        t.start()
    deadline = time.time() + 120
    for t in threads:
        t.join(max(0.1, deadline - time.time()))
    case = [raw_enc, programs, p_yield, seed, raw_threads, sizes]
    alive = [t for t in threads if t.is_alive()]
    if alive:
        frames = sys._current_frames()
        where = []
        for t in alive:
            fr = frames.get(t.ident)
            stack = traceback.extract_stack(fr) if fr else []
            where.append(stack[-1].name if stack else "?")
        if all(w in ("acquire", "__enter__") for w in where):
            ctx.fail("case", case, f"deadlock: {len(alive)} thread(s) blocked forever acquiring the class cache lock")
        else:
            ctx.inconc(f"case did not finish within the watchdog; live threads at {where}")
        STATE["hung"] = True
        return
    ctx.counters["cases"] += 1
    ctx.counters["yields.injected"] += STATE["yields"] - y0
    for i, res in enumerate(results):
        for op, got, err in res:
            ctx.ev()
            ctx.counters["ops.decided"] += 1
            want = sizes[op[1]] if sizes is not None else expected(raw, lv, op)
            if err is not None:
                ctx.fail("case", case, f"thread {i}: {op} raised {err}")
            elif got != want:
                short = (lambda v: v if not isinstance(v, list) else f"{len(v)} perms")
                ctx.fail("case", case, f"thread {i}: {op} returned {short(got)}, alone it returns {short(want)}")
        if len(res) != len(programs[i]):
            ctx.fail("case", case, f"thread {i} finished only {len(res)} of {len(programs[i])} operations")
    for bad in STATE.get("hookfail", []):
        ctx.ev()
        ctx.fail("case", case, "hook (inside the critical section): " + bad)
    ctx.counters["hook.overlapping_activations"] += STATE["overlap"]
    ctx.counters["hook.activations_without_lock_held"] += STATE["unlocked"]
    # which threads asked for a level that did not exist when the case started
    racers = sum(1 for prog in programs if any(need_level(op) >= 1 for op in prog))
    tids = {}
    sig = tuple((tids.setdefault(t, len(tids)), b, a) for (t, b, a) in STATE["events"] if a > b or True)
    STATE.setdefault("signatures", set()).add(hash(sig))
    ctx.counters["max.distinct_interleavings"] = len(STATE["signatures"])
    ctx.seen("interleavings (sequence of (thread, levels before, levels after) per lock acquisition)", sig)
    ctx.seen("lock acquisition orders (thread sequence)", tuple(s[0] for s in sig))
    builders = {t for (t, b, a) in STATE["events"] if a > b}
    waiting_requests = sum(1 for (t, b, a) in STATE["events"] if a == b)
    if racers >= 2:
        ctx.counters["cases.racy"] += 1
        ctx.nt((repr(raw_enc), repr(programs), p_yield, seed))
    if len(builders) >= 2:
        ctx.counters["cases.levels_built_by_several_threads"] += 1


def need_level(op):
    return len(op[1]) if op[0] == "in" else op[1]  # ("clear", 0) needs none


CHECKS = {"case": chk_case}


# ---- workload ----------------------------------------------------------------------------------------------------
def rand_basis(rng):
    if rng.random() < 0.12:
        # mesh classes with an EMPTY level below non-empty ones (fully shaded short patterns): not closed under deletion
        full = lambda q: enc(MeshPatt(Perm(q), [(x, y) for x in range(len(q) + 1) for y in range(len(q) + 1)]))  # noqa: E731
        return rng.choice([[full([0])], [full([0, 1]), full([1, 0])], [full([0]), full([0, 1]), full([1, 0])], [full([0]), [0, 1, 2]],
                           [full([0, 1]), full([1, 0]), [0, 2, 1]], [full([0]), enc(MeshPatt(Perm((0, 1)), [(1, 1)]))]])
    if rng.random() < 0.75:
        return [rng.sample(range(k), k) for k in (rng.choice([2, 3, 3, 3, 4, 4]) for _ in range(rng.randint(1, 3)))]
    out = []
    for _ in range(rng.randint(1, 2)):
        k = rng.randint(1, 3)
        p = rng.sample(range(k), k)
        out.append(enc(MeshPatt(Perm(p), [(x, y) for x in range(k + 1) for y in range(k + 1) if rng.random() < 0.2])))
    if rng.random() < 0.5:
        out.append(rng.sample(range(3), 3))
    return out


def rand_program(rng, top):
    prog = []
    for _ in range(rng.randint(4, 8)):
        n = rng.choice([top, top, top - 1, rng.randint(0, top)])
        c = rng.random()
        if c < 0.35:
            prog.append(["count", n])
        elif c < 0.6:
            prog.append(["of_length", n])
        elif c < 0.8:
            prog.append(["in", rng.sample(range(n), n)])
        elif c < 0.87:
            prog.append(["up_to", max(0, n - 1)])
        elif c < 0.93:
            prog.append(["clear", 0])
            prog.append(["fresh_count", n])
        else:
            prog.append(["fresh_count", n])
    return prog


def plan(tier, seed):
    per = 10 if tier == "quick" else 125
    return [{"name": f"threads-{i}", "kind": "threads", "cases": per, "registry": 6 if tier == "quick" else 40,
             "deep": (1 if i % 2 == 0 else 0) if tier == "quick" else 4, "deep_top": 10 if tier == "quick" else 11} for i in range(16)]


def run(ctx, spec):
    rng = ctx.rng
    for _ in range(spec["cases"]):
        raw_enc = rand_basis(rng)
        mesh = any(isinstance(q, dict) for q in raw_enc)
        top = 6 if mesh else NMAX
        programs = [rand_program(rng, top) for _ in range(rng.choice([2, 2, 3, 4]))]
        chk_case(ctx, raw_enc, programs, rng.choice([0.05, 0.3, 0.3, 0.7]), rng.randrange(10 ** 9), raw_threads=rng.random() < 0.3)
        if STATE.get("hung"):
            break
    # deep cases: a class with a closed-form enumeration (one pattern of length 3: Catalan numbers) asked for lengths whose
    # levels hold thousands of permutations, by requests that jump over several missing levels at once
    for _ in range(spec.get("deep", 0)):
        patt = rng.sample(range(3), 3)
        top = spec.get("deep_top", 10)
        programs = [[["count", top]], [["count", top], ["count", top - 1]], [["count", top - 2], ["count", top]]][: rng.choice([2, 3, 3])]
        chk_case(ctx, [patt], programs, rng.choice([0.0, 0.01, 0.03]), rng.randrange(10 ** 9), raw_threads=rng.random() < 0.3,
                 sizes=[catalan(i) for i in range(top + 1)])
        ctx.count("cases.deep")
        if STATE.get("hung"):
            break
    # registry churn: some threads keep creating handles from equal bases while others keep emptying the registry of classes
    for _ in range(spec.get("registry", 0)):
        raw_enc = rand_basis(rng)
        creators = [[["fresh_count", rng.randint(0, 3)] for _ in range(rng.randint(8, 14))] for _ in range(rng.choice([2, 2, 3]))]
        clearers = [[["clear", 0] for _ in range(rng.randint(8, 16))] for _ in range(rng.choice([1, 1, 2]))]
        programs = creators + clearers
        rng.shuffle(programs)
        chk_case(ctx, raw_enc, programs, rng.choice([0.3, 0.5, 0.7, 0.9]), rng.randrange(10 ** 9))
        ctx.count("cases.registry_churn")
        if STATE.get("hung"):
            break
    ctx.sample({"basis": raw_enc, "programs": programs})
