"""C11 Every permutation statistic returns the value its definition and name promise."""
import collections
import itertools

from permuta import Av, Perm
from permuta.permutils.statistics import PermutationStatistic

from .. import avmodel, monitor
from ..conv import dec, plain
from ..oracle import classical as C
from ..oracle import sorting as SO
from ..oracle import stats as ST

ID = "C11"
RULE = (
    "Recorders on ~75 statistic / listing methods of Perm compare every call with an obviously-right definition "
    "(vf/oracle/stats.py); the 32 entries of PermutationStatistic._STATISTICS are matched BY NAME to definitions, so a name "
    "bound to the wrong function is a discrepancy; count form = size of listing form. distribution_for_length / "
    "distribution_up_to are compared with the histogram over the class (oracle avoiders) and must sum to the class size; "
    "preserved_in, check_all_preservations, check_all_transformed, equally_distributed, jointly_equally_distributed are "
    "decided by re-evaluating the defining identity on the supplied data. Exhaustive over S_0..S_6 (S_7 thorough) + random "
    "longer permutations. Non-trivial = distinct (statistic, permutation) with a non-zero value + distinct (tool, data) cases."
)
ASSUMPTIONS = [
    "count_bounces and count_column_sum_primes have a transcription oracle only (no second source offline)",
    "statistics 28-31 are taken in their implemented reading (step of two, intersected with records), see DESIGN §3",
]
REQUIRED = ["named.checked", "listing.checked", "tools.distribution", "tools.preserved", "tools.transformed.nonempty", "tools.equidistributed",
            "calls.Perm.count_inversions", "calls.Perm.holeyness", "calls.Perm.rtlmax_ltrmin_decomposition", "calls.Perm.cycle_decomp", "aliasing.mutated_results", "shortcuts.checked", "tool_faults.function_failed_once", "tool_faults.injected", "tools.class_with_empty_level_below_members", "tools.transformed_equidistributed", "tools.cancelling_pairs", "primes.history_checked", "long.perms", "history.used_objects", "holeyness.structured_long"]
MIN_NONTRIVIAL = 3000
CTX = None
MON = None
FAULTS = None


def report(check, args, detail, known=None):
    CTX.fail(check, args, detail, known)


def canon_cycles(p):
    cs = []
    for c in ST.cycles(p):
        m = c.index(max(c))
        cs.append(c[m:] + c[:m])
    return sorted(cs, key=lambda c: c[0])


def o_mdr(p):
    n = len(p)
    pos = C.inv(p) if n else ()
    k = 0
    while k < n and (k == 0 or pos[n - 1 - k] > pos[n - k]):
        k += 1
    return k


def sorted_list(x):
    return sorted(x)


# method name -> (oracle, normaliser of the real result)
L = list
METHODS = {
    "count_inversions": (lambda p: len(ST.inversions(p)), None),
    "inversions": (ST.inversions, L), "non_inversions": (ST.non_inversions, L),
    "count_non_inversions": (lambda p: len(ST.non_inversions(p)), None),
    "major_index": (lambda p: sum(i + 1 for i in ST.descents(p)), None),
    "peaks": (ST.peaks, L), "peak_list": (ST.peaks, L), "count_peaks": (lambda p: len(ST.peaks(p)), None),
    "pinnacles": (ST.pinnacles, L), "pinnacle_set": (ST.pinnacles, L),
    "valleys": (ST.valleys, L), "valley_list": (ST.valleys, L), "count_valleys": (lambda p: len(ST.valleys(p)), None),
    "bends": (ST.bends, L), "bend_list": (ST.bends, L),
    "order": (ST.order, None),
    "ltrmin": (ST.ltrmin, L), "ltrmax": (ST.ltrmax, L), "rtlmin": (ST.rtlmin, L), "rtlmax": (ST.rtlmax, L),
    "count_ltrmin": (lambda p: len(ST.ltrmin(p)), None), "count_ltrmax": (lambda p: len(ST.ltrmax(p)), None),
    "count_rtlmin": (lambda p: len(ST.rtlmin(p)), None), "count_rtlmax": (lambda p: len(ST.rtlmax(p)), None),
    "fixed_points": (ST.fixed_points, L), "count_fixed_points": (lambda p: len(ST.fixed_points(p)), None),
    "strong_fixed_points": (ST.strong_fixed_points, L),
    "count_cycles": (lambda p: len(ST.cycles(p)), None),
    "cycle_decomp": (canon_cycles, lambda d: [list(c) for c in d]),
    "cycle_notation": (lambda p: " ".join("( " + " ".join(map(str, c)) + " )" for c in canon_cycles(p)) if p else "( )", None),
    "is_involution": (lambda p: all(p[p[i]] == i for i in range(len(p))), None),
    "is_increasing": (lambda p: all(v == i for i, v in enumerate(p)), None),
    "is_decreasing": (lambda p: all(v == len(p) - 1 - i for i, v in enumerate(p)), None),
    "count_bounces": (ST.bounces, None), "max_drop_size": (ST.max_drop, None),
    "count_column_sum_primes": (ST.column_sum_primes, None),
    "holeyness": (ST.holeyness, None),
    "count_stack_sorts": (lambda p: SO.passes_needed(p, SO.stack_pass), None),
    "count_pop_stack_sorts": (lambda p: SO.passes_needed(p, SO.pop_stack_pass), None),
    "cyclic_peaks": (ST.cyclic_peaks, L), "cyclic_peaks_list": (ST.cyclic_peaks, L), "count_cyclic_peaks": (lambda p: len(ST.cyclic_peaks(p)), None),
    "cyclic_valleys": (ST.cyclic_valleys, L), "cyclic_valleys_list": (ST.cyclic_valleys, L), "count_cyclic_valleys": (lambda p: len(ST.cyclic_valleys(p)), None),
    "double_excedance": (ST.double_excedances, L), "double_excedance_list": (ST.double_excedances, L), "count_double_excedance": (lambda p: len(ST.double_excedances(p)), None),
    "double_drops": (ST.double_drops, L), "double_drops_list": (ST.double_drops, L), "count_double_drops": (lambda p: len(ST.double_drops(p)), None),
    "foremaxima": (ST.foremaxima, sorted_list), "count_foremaxima": (lambda p: len(ST.foremaxima(p)), None),
    "afterminima": (ST.afterminima, sorted_list), "count_afterminima": (lambda p: len(ST.afterminima(p)), None),
    "aftermaxima": (ST.aftermaxima, sorted_list), "count_aftermaxima": (lambda p: len(ST.aftermaxima(p)), None),
    "foreminima": (ST.foreminima, sorted_list), "count_foreminima": (lambda p: len(ST.foreminima(p)), None),
    "all_bonds": (lambda p: ST.bonds(p, "any"), L), "count_bonds": (lambda p: len(ST.bonds(p, "any")), None),
    "inc_bonds": (lambda p: ST.bonds(p, "inc"), L), "count_inc_bonds": (lambda p: len(ST.bonds(p, "inc")), None),
    "dec_bonds": (lambda p: ST.bonds(p, "dec"), L), "count_dec_bonds": (lambda p: len(ST.bonds(p, "dec")), None),
    "depth": (ST.depth, None),
    "maximal_decreasing_run": (o_mdr, None),
    "longestruns_ascending": (lambda p: ST.longest_runs(p, True), lambda r: (r[0], list(r[1]))),
    "longestruns_descending": (lambda p: ST.longest_runs(p, False), lambda r: (r[0], list(r[1]))),
    "length_of_longestrun_ascending": (lambda p: ST.longest_runs(p, True)[0], None),
    "length_of_longestrun_descending": (lambda p: ST.longest_runs(p, False)[0], None),
    "rank_encoding": (ST.rank_encoding, L),
    "threepats": (lambda p: ST.pattern_counts(p, 3), lambda d: {tuple(k): v for k, v in d.items()}),
    "fourpats": (lambda p: ST.pattern_counts(p, 4), lambda d: {tuple(k): v for k, v in d.items()}),
    "count_rtlmax_ltrmin_layers": (lambda p: len(ST.layers(p)), None),
    "rtlmax_ltrmin_decomposition": (ST.layers, lambda r: [list(x) for x in r]),
}
STEP_METHODS = {
    "descents": (ST.descents, L), "descent_set": (ST.descents, L), "count_descents": (lambda p, s=None: len(ST.descents(p, s)), None),
    "ascents": (ST.ascents, L), "ascent_set": (ST.ascents, L), "count_ascents": (lambda p, s=None: len(ST.ascents(p, s)), None),
}
ALIASES = {"count_peaks": ("num_peaks", "count_pinnacles", "num_pinnacles"), "count_valleys": ("num_valleys",), "count_ltrmin": ("num_ltrmin",),
           "count_bonds": ("num_bonds", "bonds"), "count_inc_bonds": ("num_inc_bonds",), "count_dec_bonds": ("num_dec_bonds",),
           "count_cycles": ("num_cycles",), "count_descents": ("num_descents",), "count_ascents": ("num_ascents",),
           "count_column_sum_primes": ("num_column_sum_primes",), "cycle_notation": ("cycles",),
           "count_rtlmax_ltrmin_layers": ("num_rtlmax_ltrmin_layers",), "is_increasing": ("is_identity",)}
GENERATORS = {"inversions", "non_inversions", "peaks", "pinnacles", "valleys", "bends", "ltrmin", "ltrmax", "rtlmin", "rtlmax", "fixed_points",
              "strong_fixed_points", "cyclic_peaks", "cyclic_valleys", "double_excedance", "double_drops", "all_bonds", "inc_bonds", "dec_bonds",
              "rtlmax_ltrmin_decomposition", "descents", "ascents"}
HOLEY_MAX = {"quick": 6, "thorough": 7}
HOLEY_FORCED = [False]  # set while the few structured long inputs are asked (2^n subsets each: judged although above the bound)
MUTABLE_RESULTS = ["cycle_decomp", "descent_set", "ascent_set", "peak_list", "valley_list", "bend_list", "pinnacle_set", "cyclic_peaks_list",
                   "cyclic_valleys_list", "double_excedance_list", "double_drops_list", "foremaxima", "afterminima", "aftermaxima", "foreminima",
                   "rank_encoding", "threepats", "fourpats", "longestruns_ascending", "longestruns_descending"]


def known_for(name, p, got):
    if name in ("rtlmax_ltrmin_decomposition", "count_rtlmax_ltrmin_layers"):
        bug = ST.layers(p, buggy=True)
        if got == bug or got == len(bug):
            return "layers-unstandardised-remainder"
    return None


def judge(name, p, got, want, extra=()):
    CTX.ev()
    CTX.count("listing.checked")
    if got != want:
        report("method", [name, list(p), list(extra)], f"Perm{p}.{name}({', '.join(map(repr, extra))}) = {got!r}, definition gives {want!r}", known_for(name, p, got))
    elif want not in (0, [], (), {}, False, None):
        CTX.nt((name, p, extra))


def make_post(name, oracle, normal):
    def post(args, kwargs, res, exc):
        p = tuple(args[0])
        if not C.is_perm(p):
            return
        if name == "holeyness" and len(p) > HOLEY_MAX[CTX.tier] and not HOLEY_FORCED[0]:
            return
        if name == "min_gapsize" and len(p) < 2:
            return
        extra = tuple(args[1:]) + tuple(kwargs.values())
        if exc is not None:
            if isinstance(exc, ValueError) and extra and extra[0] is not None and extra[0] < 1:
                return  # documented: step size has to be 1 or more
            CTX.ev()
            report("method", [name, list(p), list(extra)], f"Perm{p}.{name}{extra} raised {exc!r}")
            return
        want = oracle(p, *extra)
        got = normal(res) if normal else res
        judge(name, p, got, want, extra)
    return post


def make_done(name, oracle, normal):
    def done(args, kwargs, items, exhausted, exc):
        p = tuple(args[0])
        if not exhausted or not C.is_perm(p):
            return
        extra = tuple(args[1:]) + tuple(kwargs.values())
        want = oracle(p, *extra)
        got = normal(items) if normal else items
        if name in ("inversions", "non_inversions"):
            got = [tuple(x) for x in got]
        judge(name, p, got, want, extra)
    return done


def setup(ctx):
    global CTX, MON
    CTX = ctx
    MON = m = monitor.Monitors(ctx)
    table = dict(METHODS)
    table.update(STEP_METHODS)
    table["min_gapsize"] = (ST.min_gapsize, None)
    for name, (oracle, normal) in table.items():
        al = ALIASES.get(name, ())
        if name in GENERATORS:
            m.wrap_gen(Perm, name, make_done(name, oracle, normal), aliases=al)
        else:
            m.wrap(Perm, name, make_post(name, oracle, normal), aliases=al)
    global FAULTS
    import permuta.permutils.statistics as SM

    FAULTS = monitor.FaultInjector(monitor.module_code_objects(SM, "statistics.py"))


def teardown(ctx):
    FAULTS.close()
    MON.uninstall()


# ---- replayable checks -------------------------------------------------------------------------------------------------
def chk_method(ctx, name, p, extra):
    P = Perm(p)
    res = getattr(P, name)(*extra)
    if name in GENERATORS:
        list(res)


def chk_used_object(ctx, p, how):
    """history: the SAME object has served other features first (as a search pattern, as a basis element, as the shared
    result of the memoised standardisation, as a text) - its statistics are then judged by the monitors as always"""
    P = Perm(p)
    big = Perm(list(p) + [len(p)]) if how != "text" else Perm(p[:1])
    if how == "pattern":
        big.contains(P), list(P.occurrences_in(big)), P in big
    elif how == "mesh":
        from permuta import MeshPatt

        M_ = MeshPatt(P, [(0, 0)])
        M_ in big, list(M_.occurrences_in(big))
    elif how == "basis":
        from permuta import Av

        Av([P, Perm(list(range(len(p) + 2)))]).count(min(len(p) + 1, 5))
    elif how == "shared":
        P = Perm.to_standard(list(p))
        big.contains(P)
    elif how == "text":
        P.contains(big), big in P
    for name in METHODS:
        if name in ("holeyness", "fourpats", "threepats", "count_stack_sorts") and len(p) > 6:
            continue
        res = getattr(P, name)()
        if name in GENERATORS:
            list(res)
    ctx.count("history.used_objects")


def chk_perm(ctx, p):
    """every statistic / listing of one permutation + the named table + count-vs-listing"""
    P = Perm(p)
    t = tuple(p)
    for name in METHODS:
        if name == "holeyness" and len(p) > HOLEY_MAX[ctx.tier]:
            continue
        res = getattr(P, name)()
        if name in GENERATORS:
            list(res)
    for name in STEP_METHODS:
        for step in (None, 1, 2, 3):
            res = getattr(P, name)(step)
            if name in GENERATORS:
                list(res)
    if len(p) >= 2:
        P.min_gapsize()
    for names in ALIASES.values():  # every alias is an entry point of its own
        for al in names:
            res = getattr(P, al)()
            ctx.count("aliases.called")
    # history / aliasing: a caller that consumes or alters a returned container must not change later answers
    # (the second round of calls is judged by the monitors like any other call)
    for name in MUTABLE_RESULTS:
        res = getattr(P, name)()
        try:
            if hasattr(res, "clear"):
                res.clear()
            elif isinstance(res, tuple) and res and isinstance(res[-1], list):
                res[-1].clear()
        except (TypeError, AttributeError):
            continue
        ctx.count("aliasing.mutated_results")
        again = getattr(P, name)()
        if name in GENERATORS:
            list(again)
    for name in ("count_cycles", "order", "cycle_notation", "count_inversions", "count_rtlmax_ltrmin_layers", "count_peaks", "length_of_longestrun_ascending"):
        getattr(P, name)()
    # count form == size of listing form (on the real functions)
    pairs = [("count_descents", "descent_set"), ("count_ascents", "ascent_set"), ("count_peaks", "peak_list"), ("count_valleys", "valley_list"),
             ("count_inversions", "inversions"), ("count_non_inversions", "non_inversions"), ("count_fixed_points", "fixed_points"),
             ("count_cycles", "cycle_decomp"), ("count_ltrmin", "ltrmin"), ("count_ltrmax", "ltrmax"), ("count_rtlmin", "rtlmin"),
             ("count_rtlmax", "rtlmax"), ("count_bonds", "all_bonds"), ("count_inc_bonds", "inc_bonds"), ("count_dec_bonds", "dec_bonds"),
             ("count_cyclic_peaks", "cyclic_peaks_list"), ("count_cyclic_valleys", "cyclic_valleys_list"),
             ("count_double_excedance", "double_excedance_list"), ("count_double_drops", "double_drops_list"),
             ("count_foremaxima", "foremaxima"), ("count_afterminima", "afterminima"), ("count_aftermaxima", "aftermaxima"),
             ("count_foreminima", "foreminima"), ("count_rtlmax_ltrmin_layers", "rtlmax_ltrmin_decomposition")]
    for cnt, lst in pairs:
        ctx.ev()
        a, b = getattr(P, cnt)(), len(list(getattr(P, lst)()))
        if a != b:
            report("perm", [p], f"{cnt}() = {a} but {lst}() has {b} entries")
    # the named table
    for idx, (name, _f) in enumerate(PermutationStatistic._STATISTICS):
        if name.startswith("Holeyness") and len(p) > HOLEY_MAX[ctx.tier]:
            continue
        stat = PermutationStatistic.get_by_index(idx)
        ctx.ev()
        ctx.count("named.checked")
        if stat.name != name or name not in ST.NAMED:
            report("perm", [p], f"statistic #{idx} is named {stat.name!r}: no definition under that name")
            continue
        got, want = stat.func(P), ST.NAMED[name](t)
        if got != want:
            known = None
            if name == "Longest increasing subsequence" and got == ST.longest_runs(t, True)[0]:
                known = "lis-is-longest-run"
            if name == "Longest decreasing subsequence" and got == ST.longest_runs(t, False)[0]:
                known = "lis-is-longest-run"
            report("perm", [p], f"statistic #{idx} {name!r} of {t} = {got}, definition gives {want}", known)
        elif want:
            ctx.nt(("named", idx, t))


def own_values(stat, perms):
    return [stat.func(q) for q in perms]


def chk_distribution(ctx, basis, n):
    """distribution_for_length / distribution_up_to over all permutations (basis=None) or over Av(basis)"""
    patts = [dec(b) for b in basis] if basis else []
    cls = Av(patts) if basis else None
    members = [[Perm(t) for t in sorted(l)] for l in (avmodel.levels([plain(q) for q in patts], n) if basis else [list(C.all_perms(i)) for i in range(n + 1)])]
    if basis and any(not l for l in members[:-1]) and any(members[i] for i in range(1, n + 1) if not members[i - 1]):
        ctx.count("tools.class_with_empty_level_below_members")
    for idx in range(len(PermutationStatistic._STATISTICS)):
        stat = PermutationStatistic.get_by_index(idx)
        if stat.name.startswith("Holeyness") and n > HOLEY_MAX[ctx.tier]:
            continue
        table = stat.distribution_up_to(n, cls)
        for i in range(n + 1):
            dist = stat.distribution_for_length(i, cls)
            ctx.ev()
            ctx.count("tools.distribution")
            hist = collections.Counter(own_values(stat, members[i]))
            want = [hist.get(v, 0) for v in range(max(hist, default=0) + 1)]
            if dist != want or sum(dist) != len(members[i]) or table[i] != dist:
                report("distribution", [basis, n], f"{stat.name!r}: distribution at length {i} = {dist} (sum {sum(dist)}), histogram over the "
                       f"{len(members[i])} members = {want}; table row = {table[i]}")
    ctx.nt(("dist", repr(basis), n))


def make_bijection(spec):
    kind, n, seed = spec
    import random
    perms = [Perm(t) for i in range(n + 1) for t in C.all_perms(i)]
    if kind == "identity":
        return {q: q for q in perms}
    if kind in ("inverse", "reverse", "complement", "rotate", "reverse_complement", "flip_antidiagonal"):
        return {q: getattr(q, kind)() for q in perms}
    rng = random.Random(seed)
    if kind == "random":
        out = {}
        for i in range(n + 1):
            lv = [q for q in perms if len(q) == i]
            img = lv[:]
            rng.shuffle(img)
            out.update(zip(lv, img))
        return out
    if kind == "partial":
        sub = rng.sample(perms, max(1, len(perms) // 4))
        return {q: rng.choice([q, q.inverse(), q.reverse()]) for q in sub}
    if kind == "empty":
        return {}
    raise ValueError(kind)


def chk_bijection(ctx, spec):
    bij = make_bijection(spec)
    orig = dict(bij)  # the data as supplied: every expectation below is computed from this snapshot
    stats = [PermutationStatistic.get_by_index(i) for i in range(len(PermutationStatistic._STATISTICS))]
    holds = {s.name: all(s.func(k) == s.func(v) for k, v in orig.items()) for s in stats}
    got = list(PermutationStatistic.check_all_preservations(bij))
    ctx.ev()
    if bij != orig or list(bij) != list(orig):
        report("bijection", [list(spec)], f"check_all_preservations altered the bijection it was given ({len(orig)} pairs before, {len(bij)} after)")
    ctx.count("tools.preserved")
    if sorted(got) != sorted(n for n, h in holds.items() if h) or len(set(got)) != len(got):
        report("bijection", [list(spec)], f"check_all_preservations reports {sorted(got)}, identity holds for {sorted(n for n, h in holds.items() if h)}")
    for s in stats[:: 5]:
        ctx.ev()
        if s.preserved_in(bij) is not holds[s.name]:
            report("bijection", [list(spec)], f"preserved_in for {s.name!r} = {s.preserved_in(bij)}, identity holds: {holds[s.name]}")
    tr = PermutationStatistic.check_all_transformed(bij)
    if bij != orig:
        report("bijection", [list(spec)], "check_all_transformed / preserved_in altered the bijection they were given")
    want = collections.defaultdict(list)
    for s1 in stats:
        for s2 in stats:
            if all(s1.func(k) == s2.func(v) for k, v in orig.items()):
                want[s1.name].append(s2.name)
    ctx.ev()
    if want:
        ctx.count("tools.transformed.nonempty")
    if {k: sorted(v) for k, v in tr.items()} != {k: sorted(v) for k, v in want.items()}:
        diff = [k for k in set(tr) | set(want) if sorted(tr.get(k, [])) != sorted(want.get(k, []))]
        report("bijection", [list(spec)], f"check_all_transformed differs for {sorted(diff)[:4]}: reported {[tr.get(k) for k in sorted(diff)[:2]]}, "
               f"identity holds for {[want.get(k) for k in sorted(diff)[:2]]}")
    ctx.nt(("bij", tuple(spec)))


def chk_shortcuts(ctx, p):
    """alternative entry points: the shortcut constructors and the symmetry duplication of a bijection"""
    P, t = Perm(p), tuple(p)
    for maker, name in ((PermutationStatistic.inv, "Number of inversions"), (PermutationStatistic.maj, "Major index"),
                        (PermutationStatistic.des, "Number of descents"), (PermutationStatistic.asc, "Number of ascents")):
        st = maker()
        ctx.ev()
        ctx.count("shortcuts.checked")
        if st.name != name or st.func(P) != ST.NAMED[name](t) or str(st) != name:
            report("shortcut", [p], f"PermutationStatistic shortcut for {name!r} gives {st.func(P)} (name {st.name!r}), definition gives {ST.NAMED[name](t)}")
    bij = {P: P.inverse(), P.reverse(): P.complement()}
    dup = list(PermutationStatistic.symmetry_duplication(bij))
    from ..oracle import geometry as G
    want = set()
    for m in G.SYMS.values():
        want.add(frozenset((G.act_perm(m, tuple(k)), G.act_perm(m, tuple(v))) for k, v in bij.items()))
    got = {frozenset((tuple(k), tuple(v)) for k, v in d.items()) for d in dup}
    ctx.ev()
    if len(dup) != 8 or got != want:
        report("shortcut", [p], f"symmetry_duplication yields {len(dup)} bijections / {len(got)} distinct, the 8 images of the bijection are {len(want)} distinct")


def chk_tool_fault(ctx, basis, n, k):
    """error path: a distribution query that is aborted (a statistic function that fails once / an exception arriving
    at a failpoint inside the tool) must not change what later identical queries return"""
    import permuta.permutils.statistics as SM

    cls = Av([Perm(b) for b in basis]) if basis else None
    members = [Perm(t) for t in sorted(avmodel.levels([tuple(b) for b in basis], n)[n])] if basis else [Perm(t) for t in C.all_perms(n)]
    calls = {"n": 0, "armed": True}

    def flaky(perm):
        calls["n"] += 1
        if calls["armed"] and calls["n"] == k:
            raise RuntimeError("statistic failed once")
        return perm.count_descents()

    stat = PermutationStatistic("Number of descents (flaky once)", flaky)
    try:
        stat.distribution_for_length(n, cls)
    except RuntimeError:
        ctx.count("tool_faults.function_failed_once")
    calls["armed"] = False
    hist = collections.Counter(q.count_descents() for q in members)
    want = [hist.get(v, 0) for v in range(max(hist, default=0) + 1)]
    for attempt in (stat, PermutationStatistic("Number of descents (flaky once)", flaky), PermutationStatistic.get_by_index(3)):
        got = attempt.distribution_for_length(n, cls)
        ctx.ev()
        if got != want:
            report("toolfault", [basis, n, k], f"after an aborted query, distribution_for_length({n}) = {got} (sum {sum(got)}), histogram over the {len(members)} members = {want}")
    # failpoint inside the tool itself, on a named statistic
    idx = (k * 7) % len(PermutationStatistic._STATISTICS)
    if PermutationStatistic._STATISTICS[idx][0].startswith("Holeyness"):
        idx = 0
    named = PermutationStatistic.get_by_index(idx)
    if monitor.with_fault(FAULTS, k, lambda: named.distribution_for_length(n, cls)):
        ctx.count("tool_faults.injected")
    own = collections.Counter(named.func(q) for q in members)
    want2 = [own.get(v, 0) for v in range(max(own, default=0) + 1)]
    got2 = PermutationStatistic.get_by_index(idx).distribution_for_length(n, cls)
    ctx.ev()
    if got2 != want2:
        report("toolfault", [basis, n, k], f"after an aborted query, {named.name!r} distribution at length {n} = {got2}, histogram = {want2}")


def chk_equidistributed(ctx, b1, b2, n):
    c1, c2 = Av([Perm(b) for b in b1]), Av([Perm(b) for b in b2])
    l1, l2 = avmodel.levels([tuple(b) for b in b1], n), avmodel.levels([tuple(b) for b in b2], n)
    stats = [PermutationStatistic.get_by_index(i) for i in range(len(PermutationStatistic._STATISTICS))]

    def hist(s, lv):
        return [collections.Counter(s.func(Perm(t)) for t in lv[i]) for i in range(n + 1)]

    want = [s.name for s in stats if hist(s, l1) == hist(s, l2)]
    got = list(PermutationStatistic.equally_distributed(c1, c2, n))
    ctx.ev()
    ctx.count("tools.equidistributed")
    if sorted(got) != sorted(want):
        report("equi", [b1, b2, n], f"equally_distributed reports {sorted(set(got) ^ set(want))} differently from the histograms")
    if n <= 3:
        gotj = set(PermutationStatistic.jointly_equally_distributed(c1, c2, n, 2))
        wantj = set()
        for sa, sb in itertools.combinations(stats, 2):
            if all(collections.Counter((sa.func(Perm(t)), sb.func(Perm(t))) for t in l1[i]) ==
                   collections.Counter((sa.func(Perm(t)), sb.func(Perm(t))) for t in l2[i]) for i in range(n + 1)):
                wantj.add((sa.name, sb.name))
        ctx.ev()
        if gotj != wantj:
            report("equi", [b1, b2, n], f"jointly_equally_distributed differs on {sorted(gotj ^ wantj)[:3]}")
        # one statistic of the first class against ANOTHER statistic of the second (dim=1: 496 ordered pairs)
        gott = list(PermutationStatistic.jointly_transformed_equally_distributed(c1, c2, n, 1))
        h1, h2 = [hist(s, l1) for s in stats], [hist(s, l2) for s in stats]
        wantt = [((stats[i].name,), (stats[j].name,)) for i in range(len(stats)) for j in range(i + 1, len(stats)) if h1[i] == h2[j]]
        ctx.ev()
        ctx.count("tools.transformed_equidistributed")
        if sorted(gott) != sorted(wantt):
            diff = sorted(set(gott) ^ set(wantt))[:3]
            report("equi", [b1, b2, n], f"jointly_transformed_equally_distributed(dim=1) reports {len(gott)} pairs, the histograms give {len(wantt)}; e.g. {diff}")
    ctx.nt(("equi", repr(b1), repr(b2), n))


def _sieve(limit):
    flags = bytearray([1]) * (limit + 1)
    flags[0:2] = b"\x00\x00"
    for i in range(2, int(limit ** 0.5) + 1):
        if flags[i]:
            flags[i * i:: i] = bytearray(len(flags[i * i:: i]))
    return flags


def chk_primes(ctx, seed, limit):
    """the primality helper behind 'column sum primes', asked in an arbitrary order (history), through both of its bindings"""
    import random

    import permuta.misc.math as PM
    import permuta.patterns.perm as PPM

    rng = random.Random(seed)
    truth = _sieve(limit)
    primes = [i for i in range(limit + 1) if truth[i]]
    # large primes first, then squares and products of primes, then everything in a random order
    order = rng.sample(primes, min(40, len(primes))) + [a * b for a in primes[5:40] for b in primes[5:40] if a * b <= limit]
    rest = list(range(-3, limit + 1))
    rng.shuffle(rest)
    for fn in (PM.is_prime, PPM.is_prime):
        for v in order + rest[: limit // 2]:
            got = fn(v)
            ctx.ev()
            if got is not bool(v >= 0 and truth[v]):
                report("primes", [seed, limit], f"is_prime({v}) = {got!r} (after other numbers were asked first), by the sieve: {bool(v >= 0 and truth[v])}")
                return
    ctx.count("primes.history_checked")


def chk_long(ctx, p_kind, n, seed):
    """cheap statistics on long structured permutations (beyond every exhaustive bound; lengths above 500 and 1000)"""
    import random

    rng = random.Random(seed)
    if p_kind == "identity_swaps":
        p = list(range(n))
        for _ in range(rng.randint(1, 4)):
            i = rng.randrange(n - 1)
            p[i], p[i + 1] = p[i + 1], p[i]
    elif p_kind == "decreasing":
        p = list(range(n - 1, -1, -1))
    elif p_kind == "layered":
        p, start = [], 0
        while start < n:
            size = min(n - start, rng.randint(1, 9))
            p += list(range(start + size - 1, start - 1, -1))
            start += size
    else:
        p = rng.sample(range(n), n)
    for name in LONG_METHODS:
        chk_method(ctx, name, p, [])
    ctx.count("long.perms")
    ctx.nt(("long", p_kind, n, seed))


LONG_METHODS = ["count_column_sum_primes", "count_fixed_points", "count_inversions", "count_peaks", "count_valleys", "count_bonds", "count_inc_bonds",
                "count_dec_bonds", "count_ltrmin", "count_ltrmax", "count_rtlmin", "count_rtlmax", "count_cycles", "major_index", "is_involution", "order",
                "length_of_longestrun_ascending", "length_of_longestrun_descending", "count_double_drops", "count_double_excedance", "depth",
                "max_drop_size", "count_cyclic_peaks", "count_aftermaxima", "count_foreminima", "is_increasing", "is_decreasing", "count_bounces"]


# permutations of length 11 whose holeyness is attained ONLY on position sets made of three or more separate runs (found by an
# offline search over 35000 random permutations: about 6 in 10000 have this shape; none exists below length 11)
HARD_HOLEY = [
    [0, 8, 9, 7, 4, 6, 5, 1, 10, 2, 3], [4, 10, 9, 3, 8, 0, 7, 1, 2, 6, 5], [5, 6, 10, 1, 9, 2, 8, 7, 3, 4, 0], [10, 6, 5, 7, 2, 8, 9, 1, 4, 0, 3],
    [2, 10, 9, 3, 0, 8, 7, 1, 4, 6, 5], [2, 8, 1, 9, 10, 4, 3, 5, 6, 0, 7], [7, 10, 4, 9, 3, 2, 6, 5, 1, 0, 8], [7, 8, 0, 5, 1, 2, 6, 9, 3, 4, 10],
    [4, 8, 9, 3, 2, 10, 1, 5, 0, 6, 7], [3, 4, 6, 5, 1, 2, 8, 7, 9, 10, 0], [6, 10, 9, 1, 0, 8, 7, 3, 2, 4, 5], [9, 10, 2, 1, 3, 4, 8, 7, 5, 6, 0],
    [10, 4, 9, 5, 8, 2, 7, 1, 6, 0, 3], [5, 4, 10, 3, 9, 6, 2, 1, 7, 8, 0], [0, 6, 1, 5, 2, 8, 9, 7, 10, 4, 3],
]


def holey_structured(rng, n):
    """a permutation of length n whose holeyness is attained on SEVERAL separate runs of positions: r runs of 2-3 adjacent
    positions carry values no two of which are consecutive (every other value), the rest fills the gaps"""
    r = rng.randint(3, 4)
    runs, pos = [], 0
    for _ in range(r):
        size = rng.choice([2, 2, 3])
        if pos + size > n:
            break
        runs.append(list(range(pos, pos + size)))
        pos += size + rng.randint(1, 2)
    chosen = [i for run in runs for i in run]
    isolated = list(range(0, 2 * len(chosen), 2))
    if not chosen or isolated[-1] >= n:
        return None
    rest_vals = [v for v in range(n) if v not in isolated]
    rest_pos = [i for i in range(n) if i not in chosen]
    rng.shuffle(isolated)
    if rng.random() < 0.5:
        rng.shuffle(rest_vals)
    p = [None] * n
    for i, v in zip(chosen, isolated):
        p[i] = v
    for i, v in zip(rest_pos, rest_vals):
        p[i] = v
    return p


def cancelling_pairs(rng, n, count):
    """pairs of classes with the same number of permutations up to length n in total but different numbers per length:
    exactly the data on which a comparison pooled over lengths and the per-length definition can disagree"""
    pool = [list(p) for k in (2, 3) for p in itertools.permutations(range(k))]
    bases = [list(c) for r in (1, 2, 3) for c in itertools.combinations(pool, r)]
    rng.shuffle(bases)
    groups = collections.defaultdict(list)
    for b in bases[:70]:
        counts = tuple(len(l) for l in avmodel.levels([tuple(q) for q in b], n))
        groups[sum(counts)].append((counts, b))
    out = []
    for total, members in sorted(groups.items(), key=lambda kv: -kv[0]):
        for (c1, b1), (c2, b2) in itertools.combinations(members, 2):
            if c1 != c2:
                out.append((b1, b2))
    rng.shuffle(out)
    return out[:count]


CHECKS = {"used": chk_used_object, "primes": chk_primes, "long": chk_long, "toolfault": chk_tool_fault, "shortcut": chk_shortcuts, "method": chk_method, "perm": chk_perm, "distribution": chk_distribution, "bijection": chk_bijection, "equi": chk_equidistributed}


def plan(tier, seed):
    nmax = 6 if tier == "quick" else 8
    specs = [{"name": f"perms-{n}-{i}", "kind": "perms", "n": n, "part": i, "parts": parts}
             for n in range(nmax + 1) for parts in [1 if n < 5 else (2 if n == 5 else (14 if n == 6 else (48 if n == 7 else 256)))] for i in range(parts)]
    specs += [{"name": f"tools-{i}", "kind": "tools", "part": i, "classes": 30 if tier == "quick" else 120, "bijs": 200 if tier == "quick" else 1200} for i in range(8)]
    specs += [{"name": f"rand-{i}", "kind": "rand", "count": (800 if tier == "quick" else 20000) // 4} for i in range(4)]
    return specs


def run(ctx, spec):
    rng = ctx.rng
    if spec["kind"] == "perms":
        for i, p in enumerate(itertools.permutations(range(spec["n"]))):
            if i % spec["parts"] == spec["part"]:
                chk_perm(ctx, list(p))
                if i % 5 == 0:
                    chk_shortcuts(ctx, list(p))
                if i % 3 == 0 and p:
                    chk_used_object(ctx, list(p), ("pattern", "mesh", "basis", "shared", "text")[(i // 3) % 5])
        ctx.note(f"exhaustive: all statistics on S_{spec['n']} part {spec['part']}/{spec['parts']}")
    elif spec["kind"] == "tools":
        part = spec["part"]
        pool = [list(p) for k in (2, 3, 3, 4) for p in itertools.permutations(range(k))]
        if part == 0:
            chk_distribution(ctx, None, 5 if ctx.tier == "quick" else 6)
            # the printed index of statistics is the one get_by_index uses, and names the definition that is computed
            import contextlib
            import io
            import re

            buf = io.StringIO()
            with contextlib.redirect_stdout(buf):
                PermutationStatistic.show_predefined_statistics()
            shown = dict((int(m.group(1)), m.group(2)) for m in re.finditer(r"^\[(\d+)\] (.*)$", buf.getvalue(), re.M))
            ctx.ev()
            ctx.count("tools.index_listing")
            n_stats = len(PermutationStatistic._STATISTICS)
            if sorted(shown) != list(range(n_stats)):
                report("named", ["listing"], f"show_predefined_statistics lists indices {sorted(shown)[:5]}.. for {n_stats} statistics")
            for i, name in shown.items():
                one = io.StringIO()
                with contextlib.redirect_stdout(one):
                    PermutationStatistic.show_predefined_statistics(i)
                st = PermutationStatistic.get_by_index(i)
                if st.name != name or one.getvalue().strip() != name or str(st) != name or name not in ST.NAMED:
                    report("named", ["listing", i], f"index {i} is shown as {name!r}, get_by_index gives {st.name!r}, show({i}) prints {one.getvalue().strip()!r}")
        if part in (1, 2):
            # classes given by mesh patterns need not be closed downwards: an empty level may sit below non-empty ones
            full = lambda p: {"cls": "MeshPatt", "p": list(p), "s": [[x, y] for x in range(len(p) + 1) for y in range(len(p) + 1)]}
            gap = [[full([0])], [full([0]), full([0, 1]), full([1, 0])], [full([0]), [0, 1, 2]], [full([0, 1]), full([1, 0])]][part - 1::2]
            for basis in gap:
                chk_distribution(ctx, basis, 4)
            k = rng.randint(1, 3)
            p = rng.sample(range(k), k)
            chk_distribution(ctx, [{"cls": "MeshPatt", "p": p, "s": [[x, y] for x in range(k + 1) for y in range(k + 1) if rng.random() < 0.4]}, [0, 1, 2, 3]], 4)
        for _ in range(spec["classes"] // 8):
            basis = rng.sample(pool, rng.randint(1, 3))
            chk_distribution(ctx, basis, rng.randint(3, 5))
        for j in range(spec["bijs"] // 8):
            kind = rng.choice(["identity", "inverse", "reverse", "complement", "rotate", "reverse_complement", "flip_antidiagonal",
                               "random", "random", "partial", "partial", "empty"])
            chk_bijection(ctx, [kind, rng.randint(1, 4), rng.randrange(10 ** 6)])
        pairs = [([[0, 1, 2]], [[0, 2, 1]]), ([[0, 2, 1]], [[2, 0, 1]]), ([[0, 1, 2], [1, 0]], [[0, 1, 2], [1, 0]]), ([[1, 2, 0]], [[1, 0, 2]]),
                 ([[0, 1, 2, 3]], [[0, 1, 3, 2]]), ([[0, 2, 1], [0, 1, 2]], [[2, 1, 0], [1, 2, 0]]), ([[1, 3, 0, 2]], [[2, 0, 3, 1]]),
                 ([[0, 2, 1]], [[1, 2, 0]])]
        for _ in range(6):
            chk_tool_fault(ctx, rng.choice([None, [[0, 2, 1]], [[1, 2, 0]], [[0, 1, 2], [2, 1, 0, 3]]]), rng.randint(3, 5), rng.choice([1, 2, 3, 5, 9, 14, 40]))
        b1, b2 = pairs[part % len(pairs)]
        chk_equidistributed(ctx, b1, b2, 3)
        chk_equidistributed(ctx, b1, b2, 5)
        chk_equidistributed(ctx, rng.sample(pool, 2), rng.sample(pool, 2), 4)
        for b1, b2 in cancelling_pairs(rng, 4, 5 if ctx.tier == "quick" else 25):
            chk_equidistributed(ctx, b1, b2, 4)
            ctx.count("tools.cancelling_pairs")
        ctx.sample({"equidistribution": [b1, b2], "bijection_kind": kind})
    else:
        linear = [n for n in METHODS if n not in ("holeyness", "fourpats", "threepats")]
        for _ in range(spec["count"]):
            n = rng.randint(7, 14)
            p = rng.sample(range(n), n)
            for name in rng.sample(linear, 12):
                chk_method(ctx, name, p, [])
            chk_method(ctx, rng.choice(list(STEP_METHODS)), p, [rng.choice([None, 1, 2, 5])])
        hard = rng.sample(HARD_HOLEY, 3 if ctx.tier == "quick" else len(HARD_HOLEY))
        for q in hard + [holey_structured(rng, rng.randint(10, 12)) for _ in range(3 if ctx.tier == "quick" else 40)]:
            if q:
                HOLEY_FORCED[0] = True
                try:
                    chk_method(ctx, "holeyness", q, [])
                    chk_method(ctx, "holeyness", list(Perm(q).inverse()), [])
                finally:
                    HOLEY_FORCED[0] = False
                ctx.count("holeyness.structured_long")
        chk_primes(ctx, rng.randrange(10 ** 6), 6000 if ctx.tier == "quick" else 40000)
        for kind in ("identity_swaps", "decreasing", "layered", "random"):
            for n in (rng.randint(501, 700), rng.randint(701, 1100), rng.randint(1300, 1500)):
                chk_long(ctx, kind, n, rng.randrange(10 ** 6))
        ctx.sample({"random_perm": p})
