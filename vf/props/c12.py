"""C12 Sorting operators, the Simion-Schmidt map and named families match definitions."""
import itertools

from permuta import Perm
from permuta.bisc import perm_properties as PP
from permuta.permutils.bijections import Bijections
from permuta.permutils.groups import dihedral_group

from .. import monitor
from ..oracle import classical as C
from ..oracle import mesh as M
from ..oracle import sorting as SO

ID = "C12"
RULE = (
    "Recorders on Perm.stack_sort/pop_stack_sort/bubble_sort/quick_sort, the *_sortable predicates, west_2/3_stack_sortable, "
    "count_(pop_)stack_sorts, Bijections.simion_and_schmidt and every predicate of permuta.bisc.perm_properties compare each "
    "call with explicit device simulators and textbook definitions (vf/oracle/sorting.py): sortable <=> output is the identity "
    "<=> the pattern characterisation; pass counts = least k; Simion-Schmidt: image = Av_n(132), injective, left-to-right minima "
    "fixed, inverse undoes it, ValueError outside either domain; families by index inequalities, Greene's theorem for the "
    "tableau shape. Exhaustive over S_0..S_7 (S_8 thorough). Non-trivial = distinct (function, permutation) with a positive "
    "verdict / a non-identity output."
)
ASSUMPTIONS = ["dihedral / alternating conventions for n <= 2 as stated in the library's docstrings", "Greene brute force up to length 7 (8 thorough)"]
REQUIRED = ["calls.Perm.stack_sort", "calls.Perm.pop_stack_sort", "calls.Perm.bubble_sort", "calls.Perm.quick_sort", "calls.Perm.west_2_stack_sortable",
            "calls.Bijections.simion_and_schmidt", "calls.pp.baxter", "calls.pp.simsun", "calls.pp.yt_perm_avoids_22", "ss.bijection_levels",
            "ss.rejected", "characterisation.checked", "derived.images", "faults.injected", "dihedral.affine_near_members", "bkv.checked"]
MIN_NONTRIVIAL = 3000
BKV_PATTERNS = [(), ((0, 1),), ((1, 0),), ((0, 1, 2),), ((1, 2, 0),), ((0, 2, 1),), ((2, 1, 0),), ((0, 1), (1, 0)), ((0, 1, 2), (2, 1, 0))]
CTX = None
MON = None
FAULTS = None


def report(check, args, detail):
    CTX.fail(check, args, detail)


def expect(label, oracle, ret_perm=False):
    def post(args, kwargs, res, exc):
        p = tuple(args[0])
        if not C.is_perm(p):
            return
        CTX.ev()
        want = oracle(p)
        got = tuple(res) if ret_perm and exc is None else res
        if exc is not None or got != want or (ret_perm and type(res) is not Perm):
            report("perm", [list(p)], f"{label}({p}) = {res!r} ({exc!r}), definition gives {want!r}")
        elif want is True or (ret_perm and want != p) or (isinstance(want, int) and not isinstance(want, bool) and want > 0):
            CTX.nt((label, p))
    return post


HARD = [((0, 1, 2), frozenset({(0, 0), (1, 1), (2, 2), (3, 3)})), ((0, 1, 2), frozenset({(0, 3), (1, 2), (2, 1), (3, 0)}))]
AV231M = [(1, 2, 0), ((0, 1, 5, 2, 3, 4), frozenset({(1, 6), (4, 5), (4, 6)}))]

PP_ORACLES = {
    "smooth": SO.smooth, "forest_like": SO.forest_like, "baxter": SO.baxter, "simsun": SO.simsun, "dihedral": SO.dihedral,
    "in_alternating_group": SO.alternating,
    "yt_perm_avoids_22": lambda p: not SO.yt_contains(p, [2, 2]), "yt_perm_avoids_32": lambda p: not SO.yt_contains(p, [3, 2]),
    "av_231_and_mesh": lambda p: M.avoids_all(p, AV231M), "hard_mesh": lambda p: M.avoids_all(p, HARD),
}
GREENE_MAX = {"quick": 7, "thorough": 8}


def post_pp(name, oracle):
    def post(args, kwargs, res, exc):
        p = tuple(args[0])
        if name.startswith("yt_") and len(p) > GREENE_MAX[CTX.tier]:
            return
        if isinstance(exc, monitor.InjectedFault):
            return
        CTX.ev()
        want = oracle(p)
        if exc is not None or res is not want:
            report("perm", [list(p)], f"perm_properties.{name}({p}) = {res!r} ({exc!r}), definition gives {want}")
        elif want:
            CTX.nt((name, p))
    return post


def post_ss(args, kwargs, res, exc):
    p = tuple(args[0])
    inverse = args[1] if len(args) > 1 else kwargs.get("inverse", False)
    CTX.ev()
    dom_pat = (0, 2, 1) if inverse else (0, 1, 2)
    img_pat = (0, 1, 2) if inverse else (0, 2, 1)
    if C.contains(p, dom_pat):
        CTX.count("ss.rejected")
        if not isinstance(exc, ValueError):
            report("ss", [list(p), bool(inverse)], f"simion_and_schmidt({p}, inverse={inverse}) outside the domain gave {res!r} ({exc!r}), want ValueError")
        return
    if exc is not None or type(res) is not Perm or not C.is_perm(tuple(res)) or len(res) != len(p):
        report("ss", [list(p), bool(inverse)], f"simion_and_schmidt({p}, inverse={inverse}) = {res!r} ({exc!r})")
        return
    q = tuple(res)
    lm = SO.ltr_minima(p)
    if C.contains(q, img_pat) or SO.ltr_minima(q) != lm or any(q[i] != p[i] for i in lm):
        report("ss", [list(p), bool(inverse)], f"simion_and_schmidt({p}, inverse={inverse}) = {q}: not in the image class or left-to-right minima moved")
    elif q != p:
        CTX.nt(("ss", p, bool(inverse)))


def setup(ctx):
    global CTX, MON
    CTX = ctx
    MON = m = monitor.Monitors(ctx)
    m.wrap(Perm, "stack_sort", expect("stack_sort", SO.stack_pass, True))
    m.wrap(Perm, "pop_stack_sort", expect("pop_stack_sort", SO.pop_stack_pass, True))
    m.wrap(Perm, "bubble_sort", expect("bubble_sort", SO.bubble_pass, True))
    m.wrap(Perm, "quick_sort", expect("quick_sort", SO.quick_pass, True))
    m.wrap(Perm, "stack_sortable", expect("stack_sortable", lambda p: SO.is_id(SO.stack_pass(p))))
    m.wrap(Perm, "pop_stack_sortable", expect("pop_stack_sortable", lambda p: SO.is_id(SO.pop_stack_pass(p))))
    m.wrap(Perm, "bubble_sortable", expect("bubble_sortable", lambda p: SO.is_id(SO.bubble_pass(p))))
    m.wrap(Perm, "quick_sortable", expect("quick_sortable", lambda p: SO.is_id(SO.quick_pass(p))))
    m.wrap(Perm, "west_2_stack_sortable", expect("west_2_stack_sortable", lambda p: SO.is_id(SO.stack_pass(SO.stack_pass(p)))))
    m.wrap(Perm, "west_3_stack_sortable", expect("west_3_stack_sortable", lambda p: SO.is_id(SO.stack_pass(SO.stack_pass(SO.stack_pass(p))))))
    m.wrap(Perm, "count_stack_sorts", expect("count_stack_sorts", lambda p: SO.passes_needed(p, SO.stack_pass)))
    m.wrap(Perm, "count_pop_stack_sorts", expect("count_pop_stack_sorts", lambda p: SO.passes_needed(p, SO.pop_stack_pass)))
    m.wrap(Bijections, "simion_and_schmidt", post_ss)
    for name, oracle in PP_ORACLES.items():
        m.wrap(PP, name, post_pp(name, oracle), label="pp." + name)
    global FAULTS
    import permuta.permutils.groups as GR

    FAULTS = monitor.FaultInjector(monitor.module_code_objects(PP, "perm_properties.py") + monitor.module_code_objects(GR, "groups.py"))


def teardown(ctx):
    FAULTS.close()
    MON.uninstall()


def chk_perm(ctx, p):
    # order matters for histories: on a fresh object the IMAGES are asked before the permutation itself
    P2 = Perm(p)
    for dev in ("stack_sort", "pop_stack_sort"):
        Q = getattr(P2, dev)()
        Q.count_stack_sorts(), Q.count_pop_stack_sorts()
        getattr(Q, dev)().count_stack_sorts()
    P2.count_stack_sorts(), P2.count_pop_stack_sorts(), P2.west_2_stack_sortable(), P2.west_3_stack_sortable()
    P = Perm(p)
    t = tuple(p)
    P.stack_sort(), P.pop_stack_sort(), P.bubble_sort(), P.quick_sort()
    res = (P.stack_sortable(), P.pop_stack_sortable(), P.bubble_sortable(), P.quick_sortable(), P.west_2_stack_sortable())
    P.west_3_stack_sortable()
    a, b = P.count_stack_sorts(), P.count_pop_stack_sorts()
    ctx.ev()
    ctx.count("characterisation.checked")
    want = (SO.stack_sortable_by_patterns(t), SO.pop_stack_sortable_by_patterns(t), SO.bubble_sortable_by_patterns(t),
            SO.quick_sortable_by_patterns(t), SO.west2_by_patterns(t))
    if res != want:
        report("perm", [p], f"sortable predicates {res} differ from the pattern characterisations {want} (stack, pop-stack, bubble, quick, West-2)")
    if (a <= 1) is not res[0] or (a <= 2) is not res[4] or (b <= 1) is not res[1] or (a <= 3) is not P.west_3_stack_sortable():
        report("perm", [p], f"pass counts (stack {a}, pop-stack {b}) inconsistent with the sortable predicates {res}")
    for name in PP_ORACLES:
        if name.startswith("yt_") and len(p) > GREENE_MAX[ctx.tier]:
            continue
        getattr(PP, name)(P)
    if len(p) <= 6:
        # the two-stacks-in-series machine with a restricted first stack: by second implementation for several restrictions,
        # and by its known characterisations (no restriction: Av(132); 12-machine: Av(213); 21-machine: West-2-stack-sortable)
        import contextlib
        import io

        for pats in BKV_PATTERNS:
            with contextlib.redirect_stdout(io.StringIO()):  # (the function prints its trace)
                got = P.bkv_sortable(tuple(Perm(q) for q in pats))
            ctx.ev()
            ctx.count("bkv.checked")
            want = SO.bkv_sortable(t, pats)
            known = {(): not C.contains(t, (0, 2, 1)), ((0, 1),): not C.contains(t, (1, 0, 2)), ((1, 0),): SO.west2_by_patterns(t)}.get(pats, want)
            if got is not want or got is not known:
                report("perm", [p], f"bkv_sortable({pats}) = {got}; machine simulation gives {want}, known characterisation {known}")
    # history on derived objects: the images under the devices are asked first, then the permutation itself again
    # (every call is judged by the monitors on that object's own value)
    for dev in ("stack_sort", "pop_stack_sort", "bubble_sort", "quick_sort"):
        Q = getattr(P, dev)()
        Q.count_stack_sorts(), Q.count_pop_stack_sorts(), Q.stack_sortable(), Q.west_2_stack_sortable()
        Q2 = getattr(Q, dev)()
        Q2.count_stack_sorts(), Q2.stack_sort()
        ctx.count("derived.images")
    P.count_stack_sorts(), P.count_pop_stack_sorts(), P.west_3_stack_sortable(), P.stack_sort(), P.quick_sort()


def chk_ss(ctx, p, inverse):
    P = Perm(p)
    try:
        Q = Bijections.simion_and_schmidt(P, inverse)
    except ValueError:
        return
    try:
        back = Bijections.simion_and_schmidt(Q, not inverse)
    except ValueError as exc:
        report("ss", [p, inverse], f"image {Q!r} rejected by the opposite direction: {exc!r}")
        return
    ctx.ev()
    if back != P:
        report("ss", [p, inverse], f"inverse does not undo the map: {P!r} -> {Q!r} -> {back!r}")


def chk_ss_level(ctx, n):
    """bijection 123-avoiders -> 132-avoiders of length n, and the groups helper"""
    src = [t for t in C.all_perms(n) if not C.contains(t, (0, 1, 2))]
    dst = {t for t in C.all_perms(n) if not C.contains(t, (0, 2, 1))}
    img = [tuple(Bijections.simion_and_schmidt(Perm(t))) for t in src]
    ctx.ev()
    ctx.count("ss.bijection_levels")
    if len(set(img)) != len(img) or set(img) != dst:
        report("sslevel", [n], f"simion_and_schmidt is not a bijection Av_{n}(123) -> Av_{n}(132): {len(src)} sources, {len(set(img))} distinct images, target {len(dst)}")
    pre = [tuple(Bijections.simion_and_schmidt(Perm(t), True)) for t in sorted(dst)]
    if set(pre) != set(src) or len(set(pre)) != len(pre):
        report("sslevel", [n], "the inverse direction is not a bijection onto the 123-avoiders")
    got = sorted(tuple(q) for q in dihedral_group(n))
    want = sorted({t for t in C.all_perms(n) if SO.dihedral(t)}) if n <= 8 else got
    ctx.ev()
    if got != want or len(got) != len(set(got)) and n > 2:
        report("sslevel", [n], f"dihedral_group({n}) = {got[:4]}..., definition gives {want[:4]}...")


def chk_dihedral_fault(ctx, n, k):
    """error path: the first dihedral() query for a length is aborted at a failpoint; later queries must be right"""
    members = [Perm([(s * i + c) % n for i in range(n)]) for s in (1, -1) for c in range(n)]
    probe = members[k % len(members)]
    if monitor.with_fault(FAULTS, k, lambda: PP.dihedral(probe)):
        ctx.count("faults.injected")
    for m in members[:: max(1, len(members) // 12)]:
        PP.dihedral(m)  # judged by the monitor
    PP.dihedral(Perm(list(range(1, n)) + [0][:1]) if n > 3 else probe)


CHECKS = {"perm": chk_perm, "ss": chk_ss, "sslevel": chk_ss_level, "dihedralfault": chk_dihedral_fault}


def plan(tier, seed):
    nmax = 7 if tier == "quick" else 9
    specs = [{"name": f"perms-{n}-{i}", "kind": "perms", "n": n, "part": i, "parts": parts}
             for n in range(nmax + 1) for parts in [1 if n < 6 else (3 if n == 6 else (16 if n == 7 else (64 if n == 8 else 320)))] for i in range(parts)]
    specs.append({"name": "ss-levels", "kind": "sslevels", "nmax": nmax})
    specs += [{"name": f"rand-{i}", "kind": "rand", "count": (400 if tier == "quick" else 8000) // 4} for i in range(4)]
    return specs


def run(ctx, spec):
    rng = ctx.rng
    if spec["kind"] == "perms":
        for i, p in enumerate(itertools.permutations(range(spec["n"]))):
            if i % spec["parts"] == spec["part"]:
                chk_perm(ctx, list(p))
                chk_ss(ctx, list(p), False)
                chk_ss(ctx, list(p), True)
        ctx.note(f"exhaustive: S_{spec['n']} part {spec['part']}/{spec['parts']}")
    elif spec["kind"] == "sslevels":
        for n in range(min(spec["nmax"], 8) + 2):
            chk_ss_level(ctx, n)
        lengths = rng.sample(range(3, 80), 24)
        for n in lengths:
            chk_dihedral_fault(ctx, n, rng.choice([1, 2, 3, 4, 6, 9, 15, 30, 60]))
        # near members of the dihedral groups: every affine map i -> a + d*i (mod n), d a unit (the group itself is d = +-1),
        # and group members with two entries exchanged
        import math
        for n in range(3, 25 if ctx.tier == "quick" else 41):
            for d in range(1, n):
                if math.gcd(d, n) != 1:
                    continue
                for a in range(n) if n <= 16 else rng.sample(range(n), 4):
                    m = [(a + d * i) % n for i in range(n)]
                    PP.dihedral(Perm(m))  # judged by the monitor
                    ctx.count("dihedral.affine_near_members")
                    if d in (1, n - 1) and n > 3:
                        i, j = rng.sample(range(n), 2)
                        m[i], m[j] = m[j], m[i]
                        PP.dihedral(Perm(m))
        ctx.sample({"simion_schmidt_levels": list(range(spec["nmax"] + 2))})
    else:
        for _ in range(spec["count"]):
            n = rng.randint(9, 12)
            p = rng.sample(range(n), n)
            chk_perm(ctx, p)
            # long members of the two domains
            q = []
            lo, hi = list(range(n)), []
            dec = sorted(rng.sample(range(n), n // 2), reverse=True)
            rest = sorted(set(range(n)) - set(dec), reverse=True)
            merged = []
            while dec or rest:
                src = dec if (dec and (not rest or rng.random() < 0.5)) else rest
                merged.append(src.pop(0))
            chk_ss(ctx, merged, False)  # a merge of two decreasing sequences avoids 123
            chk_ss(ctx, merged, True)
        ctx.sample({"random_perm": p})
