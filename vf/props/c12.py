"""C12 Sorting operators, the Simion-Schmidt map and named families match definitions."""
import itertools

from permuta import Perm
from permuta.bisc import perm_properties as PP
from permuta.permutils.bijections import Bijections
from permuta.permutils.groups import dihedral_group

from .. import monitor
from ..oracle import classical as C
from ..oracle import mesh as M
from ..oracle import sorting as SO

ID = "C12"
RULE = (
    "Recorders on Perm.stack_sort/pop_stack_sort/bubble_sort/quick_sort, the *_sortable predicates, west_2/3_stack_sortable, "
    "count_(pop_)stack_sorts, Bijections.simion_and_schmidt and every predicate of permuta.bisc.perm_properties compare each "
    "call with explicit device simulators and textbook definitions (vf/oracle/sorting.py): sortable <=> output is the identity "
    "<=> the pattern characterisation; pass counts = least k; Simion-Schmidt: image = Av_n(132), injective, left-to-right minima "
    "fixed, inverse undoes it, ValueError outside either domain; families by index inequalities, Greene's theorem for the "
    "tableau shape. Exhaustive over S_0..S_7 (S_8 thorough). Non-trivial = distinct (function, permutation) with a positive "
    "verdict / a non-identity output."
)
ASSUMPTIONS = ["dihedral / alternating conventions for n <= 2 as stated in the library's docstrings", "Greene brute force up to length 7 (8 thorough)"]
REQUIRED = ["calls.Perm.stack_sort", "calls.Perm.pop_stack_sort", "calls.Perm.bubble_sort", "calls.Perm.quick_sort", "calls.Perm.west_2_stack_sortable",
            "calls.Bijections.simion_and_schmidt", "calls.pp.baxter", "calls.pp.simsun", "calls.pp.yt_perm_avoids_22", "ss.bijection_levels",
            "ss.rejected", "characterisation.checked", "derived.images", "faults.injected", "dihedral.affine_near_members", "bkv.checked", "ss.long_members", "interpreter.asserts_disabled", "devices.long_inputs", "notation.twins_checked", "history.used_objects"]
MIN_NONTRIVIAL = 3000
RECURSIVE_DEVICES = {"stack_sort", "stack_sortable", "west_2_stack_sortable", "west_3_stack_sortable", "count_stack_sorts", "bubble_sort", "bubble_sortable",
                     "quick_sort", "quick_sortable"}
BKV_PATTERNS = [(), ((0, 1),), ((1, 0),), ((0, 1, 2),), ((1, 2, 0),), ((0, 2, 1),), ((2, 1, 0),), ((0, 1), (1, 0)), ((0, 1, 2), (2, 1, 0))]
CTX = None
MON = None
FAULTS = None


def report(check, args, detail):
    CTX.fail(check, args, detail)


def expect(label, oracle, ret_perm=False):
    def post(args, kwargs, res, exc):
        p = tuple(args[0])
        if not C.is_perm(p):
            return
        CTX.ev()
        want = oracle(p)
        got = tuple(res) if ret_perm and exc is None else res
        if exc is not None or got != want or (ret_perm and type(res) is not Perm):
            known = None
            if isinstance(exc, RecursionError) and label in RECURSIVE_DEVICES and SO.recursion_depth_needed(label, p) >= 900:
                known = "sorting-recursion-depth"
            shown = p if len(p) <= 40 else p[:12] + ("...", len(p), "entries")
            CTX.fail("perm", [list(p)], f"{label}({shown}) = {res!r} ({exc!r}), definition gives {want if len(p) <= 40 else '...'!r}", known)
        elif want is True or (ret_perm and want != p) or (isinstance(want, int) and not isinstance(want, bool) and want > 0):
            CTX.nt((label, p))
    return post


HARD = [((0, 1, 2), frozenset({(0, 0), (1, 1), (2, 2), (3, 3)})), ((0, 1, 2), frozenset({(0, 3), (1, 2), (2, 1), (3, 0)}))]
AV231M = [(1, 2, 0), ((0, 1, 5, 2, 3, 4), frozenset({(1, 6), (4, 5), (4, 6)}))]

PP_ORACLES = {
    "smooth": SO.smooth, "forest_like": SO.forest_like, "baxter": SO.baxter, "simsun": SO.simsun, "dihedral": SO.dihedral,
    "in_alternating_group": SO.alternating,
    "yt_perm_avoids_22": lambda p: not SO.yt_contains(p, [2, 2]), "yt_perm_avoids_32": lambda p: not SO.yt_contains(p, [3, 2]),
    "av_231_and_mesh": lambda p: M.avoids_all(p, AV231M), "hard_mesh": lambda p: M.avoids_all(p, HARD),
}
GREENE_MAX = {"quick": 7, "thorough": 8}


def post_pp(name, oracle):
    def post(args, kwargs, res, exc):
        p = tuple(args[0])
        if name.startswith("yt_") and len(p) > GREENE_MAX[CTX.tier]:
            return
        if isinstance(exc, monitor.InjectedFault):
            return
        CTX.ev()
        want = oracle(p)
        if exc is not None or res is not want:
            report("perm", [list(p)], f"perm_properties.{name}({p}) = {res!r} ({exc!r}), definition gives {want}")
        elif want:
            CTX.nt((name, p))
    return post


def post_ss(args, kwargs, res, exc):
    p = tuple(args[0])
    inverse = args[1] if len(args) > 1 else kwargs.get("inverse", False)
    CTX.ev()
    dom_pat = (0, 2, 1) if inverse else (0, 1, 2)
    img_pat = (0, 1, 2) if inverse else (0, 2, 1)
    contains = C.contains if len(p) <= 12 else SO.contains3
    if contains(p, dom_pat):
        CTX.count("ss.rejected")
        if not isinstance(exc, ValueError):
            report("ss", [list(p), bool(inverse)], f"simion_and_schmidt({p}, inverse={inverse}) outside the domain gave {res!r} ({exc!r}), want ValueError")
        return
    if exc is not None or type(res) is not Perm or not C.is_perm(tuple(res)) or len(res) != len(p):
        report("ss", [list(p), bool(inverse)], f"simion_and_schmidt({p}, inverse={inverse}) = {res!r} ({exc!r})")
        return
    q = tuple(res)
    lm = SO.ltr_minima(p)
    if contains(q, img_pat) or SO.ltr_minima(q) != lm or any(q[i] != p[i] for i in lm):
        report("ss", [list(p), bool(inverse)], f"simion_and_schmidt({p}, inverse={inverse}) = {q}: not in the image class or left-to-right minima moved")
    elif q != p:
        CTX.nt(("ss", p, bool(inverse)))


def setup(ctx):
    global CTX, MON
    CTX = ctx
    MON = m = monitor.Monitors(ctx)
    m.wrap(Perm, "stack_sort", expect("stack_sort", SO.stack_pass, True))
    m.wrap(Perm, "pop_stack_sort", expect("pop_stack_sort", SO.pop_stack_pass, True))
    m.wrap(Perm, "bubble_sort", expect("bubble_sort", SO.bubble_pass, True))
    m.wrap(Perm, "quick_sort", expect("quick_sort", SO.quick_pass, True))
    m.wrap(Perm, "stack_sortable", expect("stack_sortable", lambda p: SO.is_id(SO.stack_pass(p))))
    m.wrap(Perm, "pop_stack_sortable", expect("pop_stack_sortable", lambda p: SO.is_id(SO.pop_stack_pass(p))))
    m.wrap(Perm, "bubble_sortable", expect("bubble_sortable", lambda p: SO.is_id(SO.bubble_pass(p))))
    m.wrap(Perm, "quick_sortable", expect("quick_sortable", lambda p: SO.is_id(SO.quick_pass(p))))
    m.wrap(Perm, "west_2_stack_sortable", expect("west_2_stack_sortable", lambda p: SO.is_id(SO.stack_pass(SO.stack_pass(p)))))
    m.wrap(Perm, "west_3_stack_sortable", expect("west_3_stack_sortable", lambda p: SO.is_id(SO.stack_pass(SO.stack_pass(SO.stack_pass(p))))))
    m.wrap(Perm, "count_stack_sorts", expect("count_stack_sorts", lambda p: SO.passes_needed(p, SO.stack_pass)))
    m.wrap(Perm, "count_pop_stack_sorts", expect("count_pop_stack_sorts", lambda p: SO.passes_needed(p, SO.pop_stack_pass)))
    m.wrap(Bijections, "simion_and_schmidt", post_ss)
    for name, oracle in PP_ORACLES.items():
        m.wrap(PP, name, post_pp(name, oracle), label="pp." + name)
    global FAULTS
    import permuta.permutils.groups as GR

    FAULTS = monitor.FaultInjector(monitor.module_code_objects(PP, "perm_properties.py") + monitor.module_code_objects(GR, "groups.py"))


def teardown(ctx):
    FAULTS.close()
    MON.uninstall()


def chk_perm(ctx, p):
    # order matters for histories: on a fresh object the IMAGES are asked before the permutation itself
    P2 = Perm(p)
    for dev in ("stack_sort", "pop_stack_sort"):
        Q = getattr(P2, dev)()
        Q.count_stack_sorts(), Q.count_pop_stack_sorts()
        getattr(Q, dev)().count_stack_sorts()
    P2.count_stack_sorts(), P2.count_pop_stack_sorts(), P2.west_2_stack_sortable(), P2.west_3_stack_sortable()
    P = Perm(p)
    t = tuple(p)
    P.stack_sort(), P.pop_stack_sort(), P.bubble_sort(), P.quick_sort()
    res = (P.stack_sortable(), P.pop_stack_sortable(), P.bubble_sortable(), P.quick_sortable(), P.west_2_stack_sortable())
    P.west_3_stack_sortable()
    a, b = P.count_stack_sorts(), P.count_pop_stack_sorts()
    ctx.ev()
    ctx.count("characterisation.checked")
    want = (SO.stack_sortable_by_patterns(t), SO.pop_stack_sortable_by_patterns(t), SO.bubble_sortable_by_patterns(t),
            SO.quick_sortable_by_patterns(t), SO.west2_by_patterns(t))
    if res != want:
        report("perm", [p], f"sortable predicates {res} differ from the pattern characterisations {want} (stack, pop-stack, bubble, quick, West-2)")
    if (a <= 1) is not res[0] or (a <= 2) is not res[4] or (b <= 1) is not res[1] or (a <= 3) is not P.west_3_stack_sortable():
        report("perm", [p], f"pass counts (stack {a}, pop-stack {b}) inconsistent with the sortable predicates {res}")
    for name in PP_ORACLES:
        if name.startswith("yt_") and len(p) > GREENE_MAX[ctx.tier]:
            continue
        getattr(PP, name)(P)
    if len(p) <= 6:
        # the two-stacks-in-series machine with a restricted first stack: by second implementation for several restrictions,
        # and by its known characterisations (no restriction: Av(132); 12-machine: Av(213); 21-machine: West-2-stack-sortable)
        import contextlib
        import io

        for pats in BKV_PATTERNS:
            with contextlib.redirect_stdout(io.StringIO()):  # (the function prints its trace)
                got = P.bkv_sortable(tuple(Perm(q) for q in pats))
            ctx.ev()
            ctx.count("bkv.checked")
            want = SO.bkv_sortable(t, pats)
            known = {(): not C.contains(t, (0, 2, 1)), ((0, 1),): not C.contains(t, (1, 0, 2)), ((1, 0),): SO.west2_by_patterns(t)}.get(pats, want)
            if got is not want or got is not known:
                report("perm", [p], f"bkv_sortable({pats}) = {got}; machine simulation gives {want}, known characterisation {known}")
    # history on derived objects: the images under the devices are asked first, then the permutation itself again
    # (every call is judged by the monitors on that object's own value)
    for dev in ("stack_sort", "pop_stack_sort", "bubble_sort", "quick_sort"):
        Q = getattr(P, dev)()
        Q.count_stack_sorts(), Q.count_pop_stack_sorts(), Q.stack_sortable(), Q.west_2_stack_sortable()
        Q2 = getattr(Q, dev)()
        Q2.count_stack_sorts(), Q2.stack_sort()
        ctx.count("derived.images")
    P.count_stack_sorts(), P.count_pop_stack_sorts(), P.west_3_stack_sortable(), P.stack_sort(), P.quick_sort()


def chk_used_object(ctx, p, how):
    """history: the SAME object served as a search pattern / basis element / shared standardisation result before it is
    sorted, mapped and classified (all judged by the monitors as always)"""
    P = Perm(p)
    big = Perm(list(p) + [len(p)])
    if how == "pattern":
        big.contains(P), list(P.occurrences_in(big))
    elif how == "mesh":
        from permuta import MeshPatt

        list(MeshPatt(P, [(0, 0)]).occurrences_in(big))
    elif how == "shared":
        P = Perm.to_standard(list(p))
        big.contains(P)
    else:
        from permuta import Av

        Av([P, Perm(list(range(len(p) + 2)))]).count(min(len(p) + 1, 5))
    for inverse in (False, True):
        try:
            Q = Bijections.simion_and_schmidt(P, inverse)
            Bijections.simion_and_schmidt(Q, not inverse)
        except ValueError:
            pass
    P.stack_sort(), P.pop_stack_sort(), P.bubble_sort(), P.quick_sort(), P.stack_sortable(), P.west_2_stack_sortable()
    for name in PP_ORACLES:
        if not (name.startswith("yt_") and len(p) > GREENE_MAX[ctx.tier]):
            getattr(PP, name)(P)
    ctx.count("history.used_objects")


def chk_ss(ctx, p, inverse):
    P = Perm(p)
    try:
        Q = Bijections.simion_and_schmidt(P, inverse)
    except ValueError:
        return
    try:
        back = Bijections.simion_and_schmidt(Q, not inverse)
    except ValueError as exc:
        report("ss", [p, inverse], f"image {Q!r} rejected by the opposite direction: {exc!r}")
        return
    ctx.ev()
    if back != P:
        report("ss", [p, inverse], f"inverse does not undo the map: {P!r} -> {Q!r} -> {back!r}")


def tokenisations(text, n):
    """all ways to read a digit string as a permutation of 0..n-1 written without separators"""
    out = []

    def rec(pos, used, acc):
        if pos == len(text):
            if len(acc) == n:
                out.append(tuple(acc))
            return
        for width in (1, 2, 3):
            tok = text[pos: pos + width]
            if len(tok) < width or (width > 1 and tok[0] == "0"):
                continue
            v = int(tok)
            if v < n and v not in used:
                rec(pos + width, used | {v}, acc + [v])

    rec(0, frozenset(), [])
    return out


def chk_notation_twins(ctx, n):
    """permutations of length >= 11 whose one-line notation WITHOUT separators reads like (a piece of) a doubled monotone word:
    the members of the dihedral group and the few others that only look like them as digit strings"""
    size = sum(len(str(v)) for v in range(n))
    cands = set()
    for base in (list(range(n)), list(range(n - 1, -1, -1))):
        doubled = "".join(map(str, base + base))
        for start in range(len(doubled) - size + 1):
            cands.update(tokenisations(doubled[start: start + size], n))
    for t in sorted(cands):
        PP.dihedral(Perm(t))  # judged by the monitor
        Perm(t).inverse(), str(Perm(t))
    ctx.count("notation.twins_checked", len(cands))


def chk_ss_long(ctx, n, seed):
    """long members of both domains (lengths in the hundreds and above 1000), structured so that they really are members"""
    import random

    rng = random.Random(seed)
    dec = list(range(n - 1, -1, -1))
    a = sorted(rng.sample(range(n), n // 2), reverse=True)
    b = sorted(set(range(n)) - set(a), reverse=True)
    merged = []
    while a or b:
        src = a if (a and (not b or rng.random() < 0.5)) else b
        merged.append(src.pop(0))
    members123 = [dec, [n - 2, n - 1] + list(range(n - 3, -1, -1))]           # unions of two decreasing sequences
    if n <= 320:  # (the library's own domain test is cubic on a random union of two decreasing sequences)
        members123.append(merged)
    blocks = [v for i in range(n - 2, -1, -2) for v in (i, i + 1)] + ([0] if n % 2 else [])  # skew sum of 12-blocks: avoids 132
    members132 = [dec, [n - 2, n - 1] + list(range(n - 3, -1, -1)), blocks[:n] if sorted(blocks[:n]) == list(range(n)) else dec]
    if n > 700:  # (the library's own domain test needs seconds per call at these lengths: one member per direction)
        members123, members132 = members123[:1], members132[1:2]
    for m in members123:
        chk_ss(ctx, m, False)
    for m in members132:
        chk_ss(ctx, m, True)
    for m in (list(range(n)), [0, 2, 1] + list(range(3, n))):  # not members of either / of the second domain
        chk_ss(ctx, m, rng.random() < 0.5)
    ctx.count("ss.long_members")


def chk_devices_long(ctx, n, seed):
    """the sorting devices on long inputs: random ones (shallow recursion) and (near-)monotone ones (recursion as deep as the input)"""
    import random

    rng = random.Random(seed)
    inc, dec = list(range(n)), list(range(n - 1, -1, -1))
    near = inc[:]
    for _ in range(3):
        i = rng.randrange(n - 1)
        near[i], near[i + 1] = near[i + 1], near[i]
    for p in (rng.sample(range(n), n), inc, dec, near):
        P = Perm(p)
        for op in ("stack_sort", "pop_stack_sort", "bubble_sort", "quick_sort", "stack_sortable", "pop_stack_sortable", "bubble_sortable", "quick_sortable",
                   "west_2_stack_sortable", "count_pop_stack_sorts"):
            try:
                getattr(P, op)()  # judged by the monitors (a RecursionError on input that needs that depth is the known finding)
            except RecursionError:
                ctx.count("devices.recursion_errors_seen")
        ctx.count("devices.long_inputs")


def chk_ss_level(ctx, n):
    """bijection 123-avoiders -> 132-avoiders of length n, and the groups helper"""
    src = [t for t in C.all_perms(n) if not C.contains(t, (0, 1, 2))]
    dst = {t for t in C.all_perms(n) if not C.contains(t, (0, 2, 1))}
    img = [tuple(Bijections.simion_and_schmidt(Perm(t))) for t in src]
    ctx.ev()
    ctx.count("ss.bijection_levels")
    if len(set(img)) != len(img) or set(img) != dst:
        report("sslevel", [n], f"simion_and_schmidt is not a bijection Av_{n}(123) -> Av_{n}(132): {len(src)} sources, {len(set(img))} distinct images, target {len(dst)}")
    pre = [tuple(Bijections.simion_and_schmidt(Perm(t), True)) for t in sorted(dst)]
    if set(pre) != set(src) or len(set(pre)) != len(pre):
        report("sslevel", [n], "the inverse direction is not a bijection onto the 123-avoiders")
    got = sorted(tuple(q) for q in dihedral_group(n))
    want = sorted({t for t in C.all_perms(n) if SO.dihedral(t)}) if n <= 8 else got
    ctx.ev()
    if got != want or len(got) != len(set(got)) and n > 2:
        report("sslevel", [n], f"dihedral_group({n}) = {got[:4]}..., definition gives {want[:4]}...")


def chk_dihedral_fault(ctx, n, k):
    """error path: the first dihedral() query for a length is aborted at a failpoint; later queries must be right"""
    members = [Perm([(s * i + c) % n for i in range(n)]) for s in (1, -1) for c in range(n)]
    probe = members[k % len(members)]
    if monitor.with_fault(FAULTS, k, lambda: PP.dihedral(probe)):
        ctx.count("faults.injected")
    for m in members[:: max(1, len(members) // 12)]:
        PP.dihedral(m)  # judged by the monitor
    PP.dihedral(Perm(list(range(1, n)) + [0][:1]) if n > 3 else probe)


CHECKS = {"used": chk_used_object, "twins": chk_notation_twins, "deviceslong": chk_devices_long, "sslong": chk_ss_long, "perm": chk_perm, "ss": chk_ss, "sslevel": chk_ss_level, "dihedralfault": chk_dihedral_fault}


def plan(tier, seed):
    nmax = 7 if tier == "quick" else 9
    specs = [{"name": f"perms-{n}-{i}", "kind": "perms", "n": n, "part": i, "parts": parts}
             for n in range(nmax + 1) for parts in [1 if n < 6 else (3 if n == 6 else (16 if n == 7 else (64 if n == 8 else 320)))] for i in range(parts)]
    specs.append({"name": "ss-levels", "kind": "sslevels", "nmax": nmax})
    # the same level-by-level bijection check in an interpreter started with -O (assert statements compiled away)
    specs.append({"name": "ss-levels-O", "kind": "sslevels_O", "nmax": 7, "python_flags": ["-O"]})
    specs.append({"name": "ss-long", "kind": "sslong", "lengths": [300, 640, 1100] if tier == "quick" else [300, 501, 640, 999, 1001, 1100, 2000]})
    specs += [{"name": f"rand-{i}", "kind": "rand", "count": (400 if tier == "quick" else 8000) // 4} for i in range(4)]
    return specs


def run(ctx, spec):
    rng = ctx.rng
    if spec["kind"] == "perms":
        for i, p in enumerate(itertools.permutations(range(spec["n"]))):
            if i % spec["parts"] == spec["part"]:
                chk_perm(ctx, list(p))
                chk_ss(ctx, list(p), False)
                chk_ss(ctx, list(p), True)
                if i % 2 == 0 and p:
                    chk_used_object(ctx, list(p), ("pattern", "mesh", "shared", "basis")[(i // 2) % 4])
        ctx.note(f"exhaustive: S_{spec['n']} part {spec['part']}/{spec['parts']}")
    elif spec["kind"] == "sslevels_O":
        ctx.counters["interpreter.asserts_disabled"] = int(not __debug__)
        for n in range(spec["nmax"] + 1):
            chk_ss_level(ctx, n)
        for n in range(4, 9):
            for _ in range(30):
                d1 = sorted(rng.sample(range(n), n // 2), reverse=True)
                d2 = sorted(set(range(n)) - set(d1), reverse=True)
                m = []
                while d1 or d2:
                    src = d1 if (d1 and (not d2 or rng.random() < 0.5)) else d2
                    m.append(src.pop(0))
                chk_ss(ctx, m, False)
        ctx.note("Simion-Schmidt level by level also in an interpreter started with -O")
    elif spec["kind"] == "sslong":
        for n in spec["lengths"]:
            chk_ss_long(ctx, n, rng.randrange(10 ** 9))
        for n in (400, 700, 1100):
            chk_devices_long(ctx, n, rng.randrange(10 ** 9))
        for n in (10, 11, 12, 13, 14):
            chk_notation_twins(ctx, n)
    elif spec["kind"] == "sslevels":
        for n in range(min(spec["nmax"], 8) + 2):
            chk_ss_level(ctx, n)
        lengths = rng.sample(range(3, 80), 24)
        for n in lengths:
            chk_dihedral_fault(ctx, n, rng.choice([1, 2, 3, 4, 6, 9, 15, 30, 60]))
        # near members of the dihedral groups: every affine map i -> a + d*i (mod n), d a unit (the group itself is d = +-1),
        # and group members with two entries exchanged
        import math
        for n in range(3, 25 if ctx.tier == "quick" else 41):
            for d in range(1, n):
                if math.gcd(d, n) != 1:
                    continue
                for a in range(n) if n <= 16 else rng.sample(range(n), 4):
                    m = [(a + d * i) % n for i in range(n)]
                    PP.dihedral(Perm(m))  # judged by the monitor
                    ctx.count("dihedral.affine_near_members")
                    if d in (1, n - 1) and n > 3:
                        i, j = rng.sample(range(n), 2)
                        m[i], m[j] = m[j], m[i]
                        PP.dihedral(Perm(m))
        ctx.sample({"simion_schmidt_levels": list(range(spec["nmax"] + 2))})
    else:
        for _ in range(spec["count"]):
            n = rng.randint(9, 12)
            p = rng.sample(range(n), n)
            chk_perm(ctx, p)
            # long members of the two domains
            q = []
            lo, hi = list(range(n)), []
            dec = sorted(rng.sample(range(n), n // 2), reverse=True)
            rest = sorted(set(range(n)) - set(dec), reverse=True)
            merged = []
            while dec or rest:
                src = dec if (dec and (not rest or rng.random() < 0.5)) else rest
                merged.append(src.pop(0))
            chk_ss(ctx, merged, False)  # a merge of two decreasing sequences avoids 123
            chk_ss(ctx, merged, True)
        ctx.sample({"random_perm": p})
