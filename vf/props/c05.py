"""C05 A basis is a canonical, minimal, order-independent description of its class."""
import itertools

from permuta import Av, Basis, BivincularPatt, CovincularPatt, MeshBasis, MeshPatt, Perm, VincularPatt

from .. import avmodel, monitor
from ..conv import dec, enc, plain
from ..oracle import classical as C
from ..oracle import mesh as M

ID = "C05"
RULE = (
    "Monitors on Basis.__new__ / MeshBasis.__new__ (every construction, also the internal ones of Av) decide: same "
    "avoidance class as the raw arguments up to length N (brute force), no element contains another (oracle mesh-in-mesh "
    "containment), only argument patterns kept, no duplicates. The workload builds every multiset of <=3 patterns of "
    "S_1..S_3 in every order and random mixed collections (classical, mesh, bivincular, vincular, covincular) in up to "
    "24 orders with repetitions, and checks equality + equal hashes across orders, fixed point, Av identity for equal "
    "bases, from_string 0-/1-based with arbitrary separators, from_iterable. Non-trivial = distinct collections in "
    "which pruning removed something or >=2 pattern subclasses are mixed."
)
ASSUMPTIONS = ["class comparison bounded by N=6 (quick) / 7 (thorough, classical)", "oracle: vf/oracle/mesh.py region semantics for mesh-in-mesh containment"]
REQUIRED = ["calls.Basis.__new__", "calls.MeshBasis.__new__", "pruned.classical", "pruned.mesh", "mixed.subclasses", "orders.compared",
            "from_string.checked", "av_identity.checked", "identity_history.checked", "collections.two_monotone_plus_avoiders", "collections.big_antichains", "twins.rebuilt_collections", "subclass_identity.checked", "collections.long_and_induced_short", "collections.blocked_regions"]
MIN_NONTRIVIAL = 100
CTX = None
MON = None
N = {"v": 6}
CASE = [None]
EMPTY_SHADED = ((), frozenset({(0, 0)}))


def known_for(raw):
    return "shaded-empty-mesh-pattern" if any(q == EMPTY_SHADED for q in raw) else None


def report(detail, known=None):
    check, args = CASE[0] if CASE[0] else ("adhoc", [])
    CTX.fail(check, args, detail, known)


def post_new(kind):
    def post(args, kwargs, res, exc):
        patts = args[1:]
        if not all(isinstance(q, (Perm, MeshPatt)) for q in patts):
            return
        raw = [plain(q) for q in patts]
        known = known_for([M.as_mesh(q) for q in raw])
        CTX.ev()
        bad = [q for q in raw if not C.is_perm(M.as_mesh(q)[0])]
        if bad:
            report(f"{kind} constructed from something that is not a permutation of 0..k-1: {bad[:3]}")
            return
        if exc is not None:
            report(f"{kind}{tuple(patts)!r} raised {exc!r}", known)
            return
        got = [plain(q) for q in res]
        # canonical form: elements are argument patterns, no duplicates
        rawm = {M.as_mesh(q) for q in raw}
        if any(M.as_mesh(q) not in rawm for q in got) or len(set(got)) != len(got):
            report(f"{kind}{tuple(patts)!r} = {res!r}: not a duplicate-free sub-collection of the arguments", known)
        # minimal
        for a, b in itertools.permutations(got, 2):
            if M.mesh_contains_mesh(a, b):
                report(f"{kind}{tuple(patts)!r} = {res!r}: element {a} contains element {b}", known)
                break
        # same class
        if raw:
            top = N["v"] if max(len(M.as_mesh(q)[0]) for q in raw) <= 4 else N["v"] - 1
            lr, lg = avmodel.levels(raw, top)[: top + 1], avmodel.levels(got, top)[: top + 1]
            if lr != lg:
                n = next(i for i in range(top + 1) if lr[i] != lg[i])
                report(f"{kind}{tuple(patts)!r} = {res!r}: avoidance class differs at length {n}: "
                       f"raw-only {sorted(lr[n] - lg[n])[:3]} basis-only {sorted(lg[n] - lr[n])[:3]}", known)
            if len(got) < len(set(map(M.as_mesh, raw))):
                CTX.count("pruned.classical" if kind == "Basis" else "pruned.mesh")
    return post


def setup(ctx):
    global CTX, MON
    CTX = ctx
    if ctx.tier == "thorough":
        N["v"] = 7
    MON = m = monitor.Monitors(ctx)
    m.wrap(Basis, "__new__", post_new("Basis"))
    m.wrap(MeshBasis, "__new__", post_new("MeshBasis"))


def teardown(ctx):
    MON.uninstall()


def chk_collection(ctx, raw_enc, norders):
    CASE[0] = ("collection", [raw_enc, norders])
    try:
        patts = [dec(q) for q in raw_enc]
        raw = [M.as_mesh(plain(q)) for q in patts]
        known = known_for(raw)
        mesh = any(isinstance(q, MeshPatt) for q in patts)
        cls = MeshBasis if mesh else Basis
        orders = list(itertools.islice(itertools.permutations(range(len(patts))), norders))
        if len(patts) > 4:
            orders = [ctx.rng.sample(range(len(patts)), len(patts)) for _ in range(norders)]
        ref = None
        for order in orders:
            args = [patts[i] for i in order]
            try:
                b = cls(*args)
            except Exception as exc:
                report(f"{cls.__name__}{tuple(args)!r} raised {exc!r}", known)
                continue
            ctx.count("orders.compared")
            ctx.ev()
            if ref is None:
                ref = b
                # fixed point, from_iterable, repetitions
                again = cls(*b)
                if not (again == b and hash(again) == hash(b) and tuple(again) == tuple(b)):
                    report(f"not a fixed point: {cls.__name__}(*{b!r}) = {again!r}", known)
                if cls.from_iterable(iter(args)) != b or cls(*(args + args[:2])) != b:
                    report(f"from_iterable / repeated arguments give a different basis than {b!r}", known)
            elif not (b == ref and ref == b and hash(b) == hash(ref) and tuple(b) == tuple(ref)):
                report(f"order dependence: {ref!r} vs {b!r} for argument order {order}", known)
        if ref is not None and mesh:
            # the same collection as SEPARATELY BUILT equal objects whose shaded cells were listed in other orders
            for how in ("reversed", "shuffled"):
                twins = []
                for q in patts:
                    if type(q) is MeshPatt:
                        cells = sorted(q.shading)
                        cells = cells[::-1] if how == "reversed" else ctx.rng.sample(cells, len(cells))
                        twins.append(MeshPatt(Perm(tuple(q.pattern)), cells))
                    else:
                        twins.append(dec(enc(q)))
                try:
                    b2 = cls(*twins)
                except Exception as exc:
                    report(f"{cls.__name__} of separately built equal patterns raised {exc!r}", known)
                    continue
                ctx.ev()
                ctx.count("twins.rebuilt_collections")
                if not (b2 == ref and hash(b2) == hash(ref) and tuple(b2) == tuple(ref)):
                    report(f"equal patterns built with their shaded cells listed in another order give another basis: {b2!r} vs {ref!r}", known)
                elif len(ref) and Av(b2) is not Av(ref):
                    report("equal bases of separately built patterns denote different class objects", known)
        if ref is not None and len(ref) and not (len(ref) == 1 and len(ref[0]) == 0 and not mesh):
            # equal bases denote the same class object; Av(raw) has that basis
            try:
                a1, a2, a3 = Av(list(patts)), Av(list(reversed(patts))), Av(ref)
                lazy = [Av(iter(list(patts))), Av(q for q in reversed(patts)), Av.from_iterable(iter(tuple(patts))), Av(set(patts)), Av(tuple(patts))]
                ctx.count("av_identity.checked")
                ctx.ev()
                if any(o is not a1 for o in lazy):
                    report(f"Av of the same patterns given lazily (iterator / generator) or as set / tuple is not the object Av(list) gives: bases {[o.basis for o in lazy if o is not a1][:2]!r} vs {a1.basis!r}", known)
                if not (a1 is a2 and a2 is a3 and a1.basis == ref):
                    report(f"Av identity: Av(raw) / Av(reversed raw) / Av(basis) are not one object with basis {ref!r}", known)
                if not mesh:
                    a4 = Av.from_string("_".join("".join(str(v) for v in q) for q in patts if len(q) <= 10))
                    if all(len(q) <= 10 for q in patts) and a4 is not a1:
                        report("Av.from_string of the same patterns is a different object", known)
            except ValueError as exc:
                if not (len(ref) == 1 and len(ref[0]) == 0):
                    report(f"Av(...) raised {exc!r} for basis {ref!r}", known)
        kinds = {type(q).__name__ for q in patts}
        if len(kinds) >= 2:
            ctx.count("mixed.subclasses")
        if ref is not None and (len(ref) < len(set(raw)) or len(kinds) >= 2):
            ctx.nt(tuple(sorted(map(repr, raw))))
    finally:
        CASE[0] = None


class SubAv(Av):
    """a user subclass of the class of classes (no change of behaviour)"""


def chk_subclass_identity(ctx, raw_enc):
    """equal bases denote ONE object also when asked for through a user subclass, before and after that subclass's clear_cache"""
    patts = [dec(q) for q in raw_enc]
    if not patts or all(len(q) == 0 for q in patts):
        return
    for phase in ("before", "after"):
        mesh = any(isinstance(q, MeshPatt) for q in patts)
        basis = (MeshBasis if mesh else Basis)(*patts)
        objs = [SubAv(basis), SubAv(list(patts)), SubAv(tuple(reversed(patts))), SubAv.from_iterable(iter(patts))]
        if not mesh and all(0 < len(q) <= 9 for q in patts):
            objs.append(SubAv.from_string("_".join("".join(str(v) for v in q) for q in patts)))
        ctx.ev()
        ctx.count("subclass_identity.checked")
        if any(o is not objs[0] for o in objs) or objs[0].basis != basis:
            report(f"through a subclass of Av ({phase} its clear_cache) equal bases give {len({id(o) for o in objs})} different class objects")
        SubAv.clear_cache()


def chk_from_string(ctx, perms, seps):
    CASE[0] = ("from_string", [perms, seps])
    try:
        want = Basis(*[Perm(p) for p in perms])
        for base in (0, 1):
            text = ""
            for i, p in enumerate(perms):
                text += "".join(str(v + base) for v in p) + (seps[i % len(seps)] if i + 1 < len(perms) else "")
            got = Basis.from_string(text)
            ctx.ev()
            ctx.count("from_string.checked")
            if got != want or hash(got) != hash(want):
                report(f"Basis.from_string({text!r}) = {got!r}, want {want!r}")
            if len(want) and want != Basis(Perm()):
                if Av.from_string(text) is not Av(want):
                    report(f"Av.from_string({text!r}) is not Av({want!r})")
    finally:
        CASE[0] = None


def chk_identity_history(ctx, raw_enc, nothers):
    """Equal bases denote the same class object also after many other classes were created in between
    (only clear_cache is documented to forget classes)."""
    CASE[0] = ("identity", [raw_enc, nothers])
    try:
        patts = [dec(q) for q in raw_enc]
        first = Av(list(patts))
        keep = []
        pool = [Perm(t) for k in range(2, 6) for t in itertools.permutations(range(k))]
        for i in range(nothers):
            a, b = pool[i % len(pool)], pool[(7 * i + 3) % len(pool)]
            keep.append(Av([a, b] if i >= len(pool) else [a]))
        again = [Av(list(patts)), Av(list(reversed(patts))), Av.from_iterable(tuple(patts)), Av(first.basis)]
        ctx.ev()
        ctx.count("identity_history.checked")
        if not all(x is first for x in again):
            report(f"after creating {nothers} other classes, Av(equal basis) is a different object than the one still held")
        if any(Av(k.basis) is not k for k in keep[:: max(1, nothers // 20)]):
            report("a class created earlier in the history is no longer returned for its own basis")
    finally:
        CASE[0] = None


CHECKS = {"subclass_identity": chk_subclass_identity, "collection": chk_collection, "from_string": chk_from_string, "identity": chk_identity_history}


def rand_patt(rng, kmax=2):
    k = rng.randint(1, kmax)
    p = rng.sample(range(k), k)
    c = rng.randrange(6)
    req = lambda: [x for x in range(k + 1) if rng.random() < 0.3]  # noqa: E731
    if c == 0:
        return p
    if c == 1:
        return enc(VincularPatt(Perm(p), req()))
    if c == 2:
        return enc(CovincularPatt(Perm(p), req()))
    if c == 3:
        return enc(BivincularPatt(Perm(p), req(), req()))
    dens = rng.choice([0.0, 0.1, 0.25, 0.5])
    return enc(MeshPatt(Perm(p), [(x, y) for x in range(k + 1) for y in range(k + 1) if rng.random() < dens]))


def plan(tier, seed):
    small = [list(p) for k in (1, 2, 3) for p in itertools.permutations(range(k))]
    multis = [list(c) for r in (1, 2, 3) for c in itertools.combinations_with_replacement(small, r)]
    specs = [{"name": f"classical-{i}", "kind": "classical", "cols": multis[i::4], "monotone": 12 if tier == "quick" else 80,
              "antichains": [[5], [6], [4], [5]][i] if tier == "quick" else [[5, 6], [6], [4, 6], [5]][i]} for i in range(4)]
    nrand = 1500 if tier == "quick" else 10000
    specs += [{"name": f"mixed-{i}", "kind": "mixed", "count": nrand // 16, "kmax": 2 if tier == "quick" else 3} for i in range(16)]
    return specs


def run(ctx, spec):
    rng = ctx.rng
    if spec["kind"] == "classical":
        for col in spec["cols"]:
            chk_collection(ctx, col, 6)
            if rng.random() < 0.3:
                chk_from_string(ctx, col, rng.choice([["_"], [":", ", "], [" "], ["abc", "-"], ["\n"]]))
        ctx.note("exhaustive: every multiset of <=3 patterns from S_1..S_3 in every order")
        chk_identity_history(ctx, rng.choice(spec["cols"]), rng.choice([100, 300, 700]))
        chk_identity_history(ctx, [[0, 2, 1], {"cls": "MeshPatt", "p": [0, 1], "s": [[1, 1]]}], 400)
        # longer classical collections with superpatterns
        for _ in range(60):
            col = [rng.sample(range(k), k) for k in (rng.randint(1, 5) for _ in range(rng.randint(2, 5)))]
            base = rng.choice(col)
            ext = list(base)
            for _ in range(rng.randint(1, 2)):
                pos, val = rng.randint(0, len(ext)), rng.randint(0, len(ext))
                ext = [v + (v >= val) for v in ext[:pos]] + [val] + [v + (v >= val) for v in ext[pos:]]
            col.append(ext)
            rng.shuffle(col)
            chk_collection(ctx, col, 8)
            chk_from_string(ctx, col, rng.choice([["_"], [":", ", "], [" "], ["x", "-"]]))
        # an increasing and a decreasing pattern of different lengths plus patterns that avoid both (their lengths range over
        # everything Erdos-Szekeres allows: up to (a-1)(b-1))
        for _ in range(spec.get("monotone", 0)):
            a, b = rng.sample([3, 4, 5], 2)
            col = [list(range(a)), list(range(b - 1, -1, -1))]
            for _ in range(rng.randint(1, 3)):
                L = rng.randint(2, (a - 1) * (b - 1))
                for _try in range(400):
                    q = rng.sample(range(L), L)
                    if not C.contains(tuple(q), tuple(col[0])) and not C.contains(tuple(q), tuple(col[1])):
                        col.append(q)
                        break
            rng.shuffle(col)
            chk_collection(ctx, col, 6)
            ctx.count("collections.two_monotone_plus_avoiders")
        # antichains with hundreds of elements: every permutation of one length (nothing can be pruned), plus a few longer
        # patterns (all of which must be pruned)
        for L in spec.get("antichains", []):
            col = [list(q) for q in itertools.permutations(range(L))]
            rng.shuffle(col)
            col += [rng.sample(range(L + 1), L + 1) for _ in range(3)]
            chk_collection(ctx, col, 1)
            ctx.count("collections.big_antichains")
        ctx.sample({"collection": col[:6]})
    else:
        for _ in range(spec["count"]):
            col = [rand_patt(rng, spec["kmax"]) for _ in range(rng.randint(1, 4))]
            if rng.random() < 0.5 and isinstance(col[0], dict):
                # a weaker/stronger variant of the same underlying pattern: containment between mesh patterns
                q = dict(col[0])
                cells = [c for c in q["s"]]
                extra = [[x, y] for x in range(len(q["p"]) + 1) for y in range(len(q["p"]) + 1) if [x, y] not in cells]
                if rng.random() < 0.5 and cells:
                    q = {"cls": "MeshPatt", "p": q["p"], "s": rng.sample(cells, len(cells) - 1)}
                elif extra:
                    q = {"cls": "MeshPatt", "p": q["p"], "s": cells + [rng.choice(extra)]}
                col.append(q)
            if rng.random() < 0.03:
                col.append(enc(MeshPatt(Perm(), [(0, 0)])))
                ctx.count("k5_inputs")
            if rng.random() < 0.15:
                # a densely shaded pattern of length 3-4 together with patterns induced on one or two of its points (one cell
                # changed): containment between mesh patterns whose lengths differ by two or more
                k = rng.choice([3, 3, 4])
                q = tuple(rng.sample(range(k), k))
                T = frozenset((x, y) for x in range(k + 1) for y in range(k + 1) if rng.random() < rng.choice([0.5, 0.7, 0.85]))
                col.append({"cls": "MeshPatt", "p": list(q), "s": sorted(map(list, T))})
                for _ in range(rng.randint(1, 2)):
                    I = sorted(rng.sample(range(k), rng.randint(1, k - 2)))
                    r, RS = M.induced(q, T, I)
                    RS = set(RS)
                    cells = [(x, y) for x in range(len(r) + 1) for y in range(len(r) + 1)]
                    c = rng.choice(cells)
                    RS ^= {c} if rng.random() < 0.6 else set()
                    col.append({"cls": "MeshPatt", "p": list(r), "s": sorted(map(list, RS))})
                ctx.count("collections.long_and_induced_short")
            for _rep in range(3 if ctx.tier == "quick" else 1):
                # "blocked region": in a pattern q a whole region between some kept points is shaded although dropped points sit
                # inside it, so the pattern induced on the kept points may NOT shade the corresponding cell; the short pattern of
                # the collection shades exactly that cell (it is then not contained in q through these points)
                for _try in range(20):
                    k = rng.choice([3, 4, 5])
                    q = tuple(rng.sample(range(k), k))
                    I = sorted(rng.sample(range(k), rng.randint(1, k - 2)))
                    T = set((x, y) for x in range(k + 1) for y in range(k + 1) if rng.random() < rng.choice([0.2, 0.5]))
                    vert = [0] + [i + 1 for i in I] + [k + 1]
                    hori = [0] + sorted(q[i] + 1 for i in I) + [k + 1]
                    x, y = rng.randrange(len(I) + 1), rng.randrange(len(I) + 1)
                    T2 = T | {(cx, cy) for cx in range(vert[x], vert[x + 1]) for cy in range(hori[y], hori[y + 1])}
                    r, RS = M.induced(q, frozenset(T2), I)
                    if (x, y) in RS:
                        continue  # nothing hidden there
                    pair = [{"cls": "MeshPatt", "p": list(q), "s": sorted(map(list, T2))},
                            {"cls": "MeshPatt", "p": list(r), "s": sorted(map(list, set(RS) | {(x, y)}))}]
                    chk_collection(ctx, pair, 2)  # on their own (short random patterns would prune everything anyway)
                    chk_collection(ctx, pair + [rng.sample(range(5), 5)], 6)
                    ctx.count("collections.blocked_regions")
                    break
            rng.shuffle(col)
            chk_collection(ctx, col, 24 if len(col) <= 4 else 12)
            if rng.random() < 0.1:
                chk_subclass_identity(ctx, col)
        ctx.sample({"collection": col})
