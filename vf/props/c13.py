"""C13 Finiteness, polynomial growth and insertion-encodability verdicts are correct."""
import argparse
import contextlib
import io
import itertools

from permuta import Av, Basis, Perm
from permuta import permutils as PU
from permuta.perm_sets import permset as PSM
from permuta.permutils import finite as FIN
from permuta.permutils.insertion_encodable import InsertionEncodablePerms as IE
from permuta.permutils.polynomial import PolyPerms

from .. import avmodel, monitor
from ..oracle import classes as K
from ..oracle import geometry as G

ID = "C13"
RULE = (
    "Recorders on is_finite, PolyPerms.is_polynomial/is_non_polynomial, InsertionEncodablePerms.is_insertion_encodable"
    "(_rightmost/_maximum) (at every module that binds them) and on the Av wrappers decide each call on a re-iterable "
    "basis against the structure theorems written with forbidden patterns (finite <=> an increasing and a decreasing element; "
    "polynomial <=> meets the 8 juxtaposition classes and the two layered classes; rightmost/topmost insertion encodable <=> "
    "meets the 4 horizontal/vertical juxtaposition classes). The workload adds: enumeration consistency with brute-force counts "
    "(Erdos-Szekeres emptiness, non-emptiness, Fibonacci lower bound), invariance under the 8 symmetries, order, repetition and "
    "8 container types (one-shot iterators included), histories through the process-wide memo tables (content compared with the "
    "oracle at the end) and the permtools poly/insenc output. Non-trivial = distinct bases on which at least one verdict is "
    "positive or that are a single witness away from it."
)
ASSUMPTIONS = ["enumeration consistency bounded by N=8 (quick) / 9 (thorough); 'polynomial' is only confirmable when count(n) < Fib(n) shows within N"]
REQUIRED = ["calls.finite.is_finite", "calls.PolyPerms.is_polynomial", "calls.InsertionEncodablePerms.is_insertion_encodable",
            "calls.InsertionEncodablePerms.is_insertion_encodable_rightmost", "calls.InsertionEncodablePerms.is_insertion_encodable_maximum",
            "calls.Av.is_finite", "calls.Av.is_polynomial", "calls.Av.is_insertion_encodable", "containers.checked", "oneshot.checked",
            "symmetry.checked", "enumeration.finite_confirmed", "enumeration.nonpoly_fib_checked", "enumeration.poly_confirmed",
            "av_history.sequences", "long.member_bases", "nine_of_ten.bases", "verylong.member_bases", "reentrant.calls", "memo.poly_entries_checked", "memo.insenc_entries_checked", "cli.checked", "verdict.polynomial_true", "verdict.insenc_true", "verdict.finite_true"]
MIN_NONTRIVIAL = 300
CTX = None
MON = None
NENUM = {"v": 8}


def report(check, args, detail):
    CTX.fail(check, args, detail)


def as_perms(basis):
    if isinstance(basis, (list, tuple, set, frozenset)):
        items = list(basis)
        if all(isinstance(b, Perm) for b in items):
            return [tuple(b) for b in items]
    return None


def post_verdict(label, oracle):
    def post(args, kwargs, res, exc):
        perms = as_perms(args[0])
        if perms is None:
            CTX.count("skipped_oneshot_or_foreign_argument")
            return
        CTX.ev()
        want = oracle(perms)
        if exc is not None or res is not want:
            report("basis", [[list(p) for p in perms]], f"{label}({perms}) = {res!r} ({exc!r}), structure theorem gives {want}")
    return post


def post_av(label, oracle):
    def post(args, kwargs, res, exc):
        av = args[0]
        if not isinstance(av.basis, Basis):
            return
        perms = [tuple(b) for b in av.basis]
        CTX.ev()
        want = oracle(perms)
        if exc is not None or res is not want:
            report("basis", [[list(p) for p in perms]], f"Av.{label}() for basis {perms} = {res!r} ({exc!r}), structure theorem gives {want}")
    return post


def o_insenc(perms):
    return K.insenc_rightmost(perms) or K.insenc_topmost(perms)


def setup(ctx):
    global CTX, MON
    CTX = ctx
    if ctx.tier == "thorough":
        NENUM["v"] = 9
    MON = m = monitor.Monitors(ctx)
    m.wrap(PolyPerms, "is_polynomial", post_verdict("is_polynomial", K.is_polynomial))
    m.wrap(PolyPerms, "is_non_polynomial", post_verdict("is_non_polynomial", lambda b: not K.is_polynomial(b)))
    m.wrap(IE, "is_insertion_encodable", post_verdict("is_insertion_encodable", o_insenc))
    m.wrap(IE, "is_insertion_encodable_rightmost", post_verdict("is_insertion_encodable_rightmost", K.insenc_rightmost))
    m.wrap(IE, "is_insertion_encodable_maximum", post_verdict("is_insertion_encodable_maximum", K.insenc_topmost))
    fin = m.wrap(FIN, "is_finite", post_verdict("is_finite", K.is_finite), label="finite.is_finite")
    # names bound at import time elsewhere must see the monitored functions too
    for mod, names in ((PU, {"is_finite": fin, "is_polynomial": PolyPerms.is_polynomial, "is_non_polynomial": PolyPerms.is_non_polynomial,
                              "is_insertion_encodable": IE.is_insertion_encodable,
                              "is_insertion_encodable_rightmost": IE.is_insertion_encodable_rightmost,
                              "is_insertion_encodable_maximum": IE.is_insertion_encodable_maximum}),
                       (PSM, {"is_finite": fin, "is_polynomial": PolyPerms.is_polynomial, "is_insertion_encodable": IE.is_insertion_encodable})):
        for name, fn in names.items():
            m.saved.append((mod, name, getattr(mod, name)))
            setattr(mod, name, fn)
    m.wrap(Av, "is_finite", post_av("is_finite", K.is_finite))
    m.wrap(Av, "is_polynomial", post_av("is_polynomial", K.is_polynomial))
    m.wrap(Av, "is_insertion_encodable", post_av("is_insertion_encodable", o_insenc))


def teardown(ctx):
    check_memos(ctx)
    MON.uninstall()


def check_memos(ctx):
    """End-of-history state check: the process-wide memo tables hold exactly the oracle's per-permutation facts."""
    for perm, types in list(PolyPerms._CACHE.items()):
        ctx.ev()
        ctx.count("memo.poly_entries_checked")
        got = frozenset(getattr(t, "value", t) for t in types)
        want = K.types_of(tuple(perm))
        if got != want:
            report("basis", [[list(perm)]], f"polynomial memo entry for {tuple(perm)} holds types {sorted(got)}, the ten classes it belongs to are {sorted(want)}")
    order = [K.H_ID, K.H_II, K.H_DD, K.H_DI]
    for perm, bits in list(IE._CACHE.items()):
        ctx.ev()
        ctx.count("memo.insenc_entries_checked")
        want = sum((1 << i) for i, cls in enumerate(order) if K.in_class(tuple(perm), cls))
        if bits != want:
            report("basis", [[list(perm)]], f"insertion-encoding memo entry for {tuple(perm)} is {bits:04b}, juxtaposition membership gives {want:04b}")


# ---- replayable checks -----------------------------------------------------------------------------------------------
def verdicts(perms):
    return (PU.is_finite(perms), PU.is_polynomial(perms), PU.is_insertion_encodable_rightmost(perms), PU.is_insertion_encodable_maximum(perms),
            PU.is_insertion_encodable(perms), PU.is_non_polynomial(perms))


def cli_out(fn, text):
    if len(text) % 2:  # through the argument parser and the sub-command table
        from ..cliutil import run_main

        return run_main([{"has_poly_growth": "poly", "has_regular_insertion_encoding": "insenc"}[fn.__name__], text])[0]
    buf = io.StringIO()
    with contextlib.redirect_stdout(buf):
        fn(argparse.Namespace(basis=text))
    return buf.getvalue()


def chk_basis(ctx, basis, full=True):
    ts = [tuple(b) for b in basis]
    P = [Perm(b) for b in basis]
    want = (K.is_finite(ts), K.is_polynomial(ts), K.insenc_rightmost(ts), K.insenc_topmost(ts))
    want6 = want + (want[2] or want[3], not want[1])
    got = verdicts(P)
    ctx.ev()
    if got != want6:
        report("basis", [basis], f"verdicts (finite, polynomial, rightmost, topmost, insertion-encodable, non-polynomial) = {got}, theorems give {want6}")
    for flag, name in zip(want[:2] + (want6[4],), ("finite", "polynomial", "insenc")):
        if flag:
            ctx.count(f"verdict.{name}_true")
    if any(want6[:5]):
        ctx.nt(tuple(sorted(ts)))
    if not full:
        return
    # containers (one-shot iterators included), order, repetition
    forms = {
        "list": lambda: list(P), "tuple": lambda: tuple(P), "set": lambda: set(P), "frozenset": lambda: frozenset(P),
        "reversed+dup": lambda: P[::-1] + P[:1], "Basis": lambda: Basis(*P),
        "generator": lambda: (q for q in P), "iter": lambda: iter(P), "map": lambda: map(Perm, basis),
    }
    for fname, make in forms.items():
        oneshot = fname in ("generator", "iter", "map")
        res = (PU.is_finite(make()), PU.is_polynomial(make()), PU.is_insertion_encodable_rightmost(make()),
               PU.is_insertion_encodable_maximum(make()), PU.is_insertion_encodable(make()), PU.is_non_polynomial(make()))
        ctx.ev()
        ctx.count("oneshot.checked" if oneshot else "containers.checked")
        if res != want6:
            report("basis", [basis], f"verdicts change with the container: as {fname} {res}, theorems give {want6}")
    # the class wrappers
    bas = Basis(*P)
    if len(bas) and bas != Basis(Perm()):
        av = Av(bas)
        res = (av.is_finite(), av.is_polynomial(), av.is_insertion_encodable())
        ctx.ev()
        if res != (want[0], want[1], want6[4]):
            report("basis", [basis], f"Av wrappers give {res}, theorems give {(want[0], want[1], want6[4])}")
    # eight symmetries: finite / polynomial invariant; rightmost <-> topmost under the transposing ones
    for name, m in G.SYMS.items():
        img = [Perm(G.act_perm(m, t)) for t in ts]
        res = verdicts(img)
        transposing = m[0][0] == 0
        exp = (want[0], want[1]) + ((want[3], want[2]) if transposing else (want[2], want[3])) + (want6[4], want6[5])
        ctx.ev()
        ctx.count("symmetry.checked")
        if res != exp:
            report("basis", [basis], f"under the symmetry {name} the verdicts are {res}, expected {exp}")
    # command line
    if ts and all(1 <= len(t) <= 9 for t in ts):
        from permuta import cli

        text = "_".join("".join(str(v + 1) for v in t) for t in ts)
        out1 = cli_out(cli.has_poly_growth, text)
        out2 = cli_out(cli.has_regular_insertion_encoding, text)
        ctx.ev()
        ctx.count("cli.checked")
        if ("not polynomial" in out1) is want[1] or "polynomial" not in out1:
            report("basis", [basis], f"`permtools poly {text}` printed {out1!r}, theorem says polynomial={want[1]}")
        if ("topmost" in out2) is not want[3] or ("rightmost" in out2) is not want[2] or ("does not have" in out2) is want6[4]:
            report("basis", [basis], f"`permtools insenc {text}` printed {out2!r}, theorems say rightmost={want[2]} topmost={want[3]}")


def chk_reentrant(ctx, basis):
    """a basis given lazily, whose evaluation itself asks the library (the same verdict functions, for single elements):
    the verdict must be the one of the same permutations given as a list.  A call that never returns because it waits for
    a lock its own thread holds is recognised by inspecting the blocked thread (not by the clock alone)."""
    import sys
    import threading
    import traceback

    perms = [Perm(b) for b in basis]
    fns = {"is_insertion_encodable_rightmost": PU.is_insertion_encodable_rightmost, "is_insertion_encodable_maximum": PU.is_insertion_encodable_maximum,
           "is_polynomial": PU.is_polynomial, "is_finite": PU.is_finite, "is_insertion_encodable": PU.is_insertion_encodable}
    for name, fn in fns.items():
        want = fn(list(perms))

        def lazy():
            for q in perms:
                fn([q])  # nested request while the outer one is iterating over its argument
                yield q

        box = {}

        def call():
            try:
                box["res"] = fn(lazy())
            except BaseException as exc:  # noqa: B902
                box["exc"] = exc

        th = threading.Thread(target=call, daemon=True)
        th.start()
        th.join(60)
        ctx.ev()
        ctx.count("reentrant.calls")
        if th.is_alive():
            frame = sys._current_frames().get(th.ident)
            stack = traceback.extract_stack(frame) if frame else []
            inside = any("/permuta/" in f.filename for f in stack)
            waiting = bool(stack) and (stack[-1].name in ("acquire", "__enter__", "wait") or "acquire" in (stack[-1].line or "") or "with " in (stack[-1].line or ""))
            if inside and waiting:
                report("reentrant", [basis], f"{name}(lazily evaluated basis) never returns: its thread is blocked at {stack[-1].name}:{stack[-1].lineno} "
                       f"({(stack[-1].line or '').strip()}) waiting for a lock taken by the same call")
            else:
                ctx.inconc(f"{name}(lazy basis) still running after 60 s at {[f.name for f in stack[-3:]]}")
            return False  # the blocked call may hold library locks: nothing else is asked in this process
        if "exc" in box:
            report("reentrant", [basis], f"{name}(lazily evaluated basis) raised {box['exc']!r}; the list form gives {want}")
        elif box.get("res") is not want:
            report("reentrant", [basis], f"{name}(lazily evaluated basis) = {box.get('res')!r}, the same permutations as a list give {want}")
    return True


def chk_enumeration(ctx, basis):
    ts = [tuple(b) for b in basis]
    if not ts or any(len(t) == 0 for t in ts):
        return
    P = [Perm(b) for b in basis]
    fin, poly = PU.is_finite(P), PU.is_polynomial(P)
    N = NENUM["v"] if max(len(t) for t in ts) <= 4 else NENUM["v"] - 1
    counts = [len(l) for l in avmodel.levels(ts, N)]
    ctx.ev()
    if fin:
        a = min(len(t) for t in ts if K.increasing(t))
        b = min(len(t) for t in ts if K.decreasing(t))
        bound = (a - 1) * (b - 1) + 1
        if bound <= N:
            ctx.count("enumeration.finite_confirmed")
            if any(c != 0 for c in counts[bound:]):
                report("enum", [basis], f"declared finite but {counts} is not empty from length {bound} on (Erdos-Szekeres bound)")
        else:
            ctx.count("enumeration.finite_bound_beyond_N")
    else:
        if any(c == 0 for c in counts):
            report("enum", [basis], f"declared infinite but the class is empty at some length <= {N}: {counts}")
    if not poly:
        ctx.count("enumeration.nonpoly_fib_checked")
        if any(counts[n] < K.fib(n) for n in range(N + 1)):
            report("enum", [basis], f"declared non-polynomial but counts {counts} drop below Fibonacci {[K.fib(n) for n in range(N + 1)]}")
    else:
        if any(counts[n] < K.fib(n) for n in range(N + 1)):
            ctx.count("enumeration.poly_confirmed")
        else:
            ctx.count("enumeration.poly_unconfirmed_within_bound")
    ctx.nt(("enum", tuple(sorted(ts))))


def chk_history(ctx, target, others):
    """verdicts for `target` before and after many other bases that share permutations with it (process-wide memos)"""
    before = verdicts([Perm(b) for b in target])
    for o in others:
        verdicts([Perm(b) for b in o])
        list(map(lambda q: q, o))
    after = verdicts([Perm(b) for b in target])
    ctx.ev()
    if before != after:
        report("history", [target, others], f"verdicts for {target} changed after other calls: {before} -> {after}")
    chk_basis(ctx, target, full=False)


def chk_av_history(ctx, bases):
    """class-level history: verdicts asked through Av objects that are created, dropped and re-created around
    clear_cache (every call is judged by the Av monitors against the theorems for that object's own basis)"""
    import gc

    keep = []
    for i, basis in enumerate(bases):
        B = [Perm(b) for b in basis]
        if i % 3 != 2:
            Av.clear_cache()
            gc.collect()
        av = Av(B)
        av.is_finite(), av.is_polynomial(), av.is_insertion_encodable()
        if i % 4 == 0:
            keep.append(av)  # some handles stay alive across clear_cache
        del av
    for av in keep:
        av.is_finite(), av.is_polynomial(), av.is_insertion_encodable()
    ctx.count("av_history.sequences")


CHECKS = {"reentrant": chk_reentrant, "basis": chk_basis, "enum": chk_enumeration, "history": chk_history, "av_history": chk_av_history}



# ---- workload ------------------------------------------------------------------------------------------------------------
def single_witness_bases(rng, count):
    """polynomial / encodable bases from which one witness is deleted, so exactly one class is left unmet"""
    pool = [p for n in range(1, 6) for p in itertools.permutations(range(n))]
    out = []
    for _ in range(count):
        basis = []
        for cls in K.TEN:
            members = [p for p in pool if K.in_class(p, cls) and len(p) >= 2]
            basis.append(list(rng.choice(members)))
        full = [list(b) for b in {tuple(b) for b in basis}]
        out.append(full)
        if len(full) > 1:
            drop = rng.randrange(len(full))
            out.append(full[:drop] + full[drop + 1:])
    return out


def nine_of_ten_bases(rng):
    """for each of the ten classes: a basis that meets the other nine through elements lying OUTSIDE the class that is left
    out (so exactly one of the ten conditions of the polynomial-growth theorem fails)"""
    pool = [p for n in range(2, 6) for p in itertools.permutations(range(n))]
    out = []
    for c, left_out in enumerate(K.TEN):
        basis = []
        for d, cls in enumerate(K.TEN):
            if d == c:
                continue
            cands = [p for p in pool if K.in_class(p, cls) and not K.in_class(p, left_out)]
            if not cands:
                basis = None
                break
            basis.append(list(rng.choice(cands)))
        if basis:
            out.append([list(b) for b in {tuple(b) for b in basis}])
    return out


def chk_verylong(ctx, seed):
    """members of the ten classes with several hundred points (and near members), each as the only possible witness of its
    class next to short witnesses of the others"""
    import random

    rng = random.Random(seed)
    short = {0: (0, 1, 2), 3: (2, 1, 0)}
    for which in rng.sample(range(10), 4):
        n = rng.randint(501, 640)
        m = long_member(rng, which, n)
        near = list(m)
        i = rng.randrange(n - 3)
        near[i], near[i + 2] = near[i + 2], near[i]
        others = [list(rng.choice([p for p in itertools.permutations(range(3)) if K.in_class(p, cls)])) for d, cls in enumerate(K.TEN) if d != which]
        others = [list(b) for b in {tuple(b) for b in others} if not K.in_class(tuple(b), K.TEN[which])]
        chk_basis(ctx, [list(m)], full=False)
        chk_basis(ctx, [list(m)] + others, full=False)
        chk_basis(ctx, [near] + others, full=False)
        chk_basis(ctx, [list(K.C.inv(m))] + others, full=False)
        ctx.count("verylong.member_bases")


def long_member(rng, which, n):
    """a random permutation of length n in one of the ten classes, built from the class's description"""
    if which < 8:
        k = rng.randint(0, n)
        vals = list(range(n))
        left = sorted(rng.sample(vals, k))
        right = sorted(set(vals) - set(left))
        kind = which % 4
        a = left if kind in (0, 1) else left[::-1]  # increasing or decreasing first run
        b = right if kind in (0, 2) else right[::-1]
        p = tuple(a + b)
        return p if which < 4 else tuple(K.C.inv(p))
    blocks, total = [], 0
    while total < n:
        size = 1 if total == n - 1 else rng.choice([1, 2])
        blocks.append(size)
        total += size
    out, base = [], 0
    for size in blocks:
        out += [base] if size == 1 else [base + 1, base]
        base += size
    return tuple(out) if which == 8 else tuple(reversed(out))


def chk_long(ctx, seed):
    """bases built from LONG members of the ten classes and their images under the eight symmetries; all of them pass
    through the process-wide memo tables, whose content is compared with the oracle at the end of the shard"""
    import random

    rng = random.Random(seed)
    members = [long_member(rng, w, rng.randint(8, 11)) for w in range(10)]
    imgs = [G.act_perm(m, members[rng.randrange(10)]) for m in G.SYMS.values()]
    for t in members + imgs:  # touch each one alone first (memo priming), then in combinations
        chk_basis(ctx, [list(t)], full=False)
    chk_basis(ctx, [list(t) for t in members], full=False)
    drop = rng.randrange(10)
    chk_basis(ctx, [list(t) for i, t in enumerate(members) if i != drop], full=False)
    chk_basis(ctx, [list(t) for t in imgs[:4]] + [list(members[8]), list(K.C.inv(members[9]))], full=False)
    chk_basis(ctx, [list(K.C.inv(t)) for t in members], full=False)
    chk_basis(ctx, [list(members[9]), list(K.C.inv(members[9])), [1, 2, 3, 0]], full=False)
    ctx.count("long.member_bases")


CHECKS["long"] = chk_long
CHECKS["verylong"] = chk_verylong


def plan(tier, seed):
    kmax = 3 if tier == "quick" else 4
    pool = [list(p) for k in range(1, kmax + 1) for p in itertools.permutations(range(k))]
    exh = [[p] for p in pool] + [[a, b] for a, b in itertools.combinations(pool, 2)]
    parts = 8 if tier == "quick" else 16
    specs = [{"name": f"exh-{i}", "kind": "exh", "bases": exh[i::parts]} for i in range(parts)]
    nrand = 2000 if tier == "quick" else 20000
    specs += [{"name": f"rand-{i}", "kind": "rand", "count": nrand // 16, "enum": (200 if tier == "quick" else 1200) // 16,
               "hist": (300 if tier == "quick" else 2000) // 16} for i in range(16)]
    return specs


def run(ctx, spec):
    rng = ctx.rng
    if spec["kind"] == "exh":
        for basis in spec["bases"]:
            chk_basis(ctx, basis, full=True)
        for basis in spec["bases"][:: 6]:
            chk_enumeration(ctx, basis)
        ctx.note("exhaustive: every basis of <= 2 elements from S_1..S_k (k=3 quick, 4 thorough), all containers and symmetries")
        ctx.sample({"basis": spec["bases"][0]})
    else:
        for i in range(spec["count"]):
            basis = [rng.sample(range(k), k) for k in (rng.choice([1, 2, 3, 3, 4, 4, 5, 5, 6]) for _ in range(rng.randint(1, 5)))]
            chk_basis(ctx, basis, full=(i % 4 == 0))
        for basis in single_witness_bases(rng, max(2, spec["count"] // 12)):
            chk_basis(ctx, basis, full=True)
            if rng.random() < 0.3:
                chk_enumeration(ctx, basis)
        for _ in range(max(3, spec["count"] // 25)):
            chk_long(ctx, rng.randrange(10 ** 9))
        for basis in nine_of_ten_bases(rng):
            chk_basis(ctx, basis, full=rng.random() < 0.3)
            ctx.count("nine_of_ten.bases")
        chk_verylong(ctx, rng.randrange(10 ** 9))
        for _ in range(3):
            basis = [rng.sample(range(k), k) for k in (rng.choice([2, 3, 3, 4]) for _ in range(rng.randint(1, 4)))]
            if not chk_reentrant(ctx, basis):
                return
        for _ in range(spec["enum"]):
            basis = [rng.sample(range(k), k) for k in (rng.choice([2, 3, 3, 4, 4]) for _ in range(rng.randint(1, 4)))]
            chk_enumeration(ctx, basis)
        for _ in range(spec["hist"]):
            target = [rng.sample(range(k), k) for k in (rng.randint(1, 5) for _ in range(rng.randint(1, 4)))]
            others = []
            for _ in range(rng.randint(3, 20)):
                o = [rng.sample(range(k), k) for k in (rng.randint(1, 5) for _ in range(rng.randint(1, 3)))]
                if rng.random() < 0.6:
                    o.append(list(rng.choice(target)))
                if rng.random() < 0.3:
                    o.append(list(Perm(rng.choice(target)).rotate()))
                others.append(o)
            chk_history(ctx, target, others)
        for _ in range(max(2, spec["hist"] // 2)):
            seq = []
            for _ in range(rng.randint(4, 12)):
                kind = rng.randrange(4)
                if kind == 0:
                    seq.append([rng.sample(range(k), k) for k in (rng.randint(2, 5) for _ in range(rng.randint(1, 3)))])
                elif kind == 1:
                    seq.append([list(range(rng.randint(2, 4))), list(range(rng.randint(2, 4)))[::-1]])  # finite
                elif kind == 2:
                    seq.append(rng.choice(single_witness_bases(rng, 1)))
                else:
                    seq.append([[1, 3, 0, 2], [2, 0, 3, 1]])
            chk_av_history(ctx, seq)
        ctx.sample({"history_target": target, "n_other_bases": len(others)})
