"""C19 Reported enumeration strategies follow their stated conditions and symmetries."""
import itertools
import os
import tempfile

from permuta import Perm
from permuta import enumeration_strategies as ES
import sys

import permuta.enumeration_strategies.core_strategies  # noqa: F401

CS = sys.modules["permuta.enumeration_strategies.core_strategies"]
from permuta.enumeration_strategies.finitely_many_simples import FinitelyManySimplesStrategy
from permuta.enumeration_strategies.insertion_encodable import InsertionEncodingStrategy
from permuta.permutils.pin_words import PinWords

from .. import monitor
from ..oracle import classes as K
from ..oracle import classical as C
from ..oracle import geometry as G
from ..oracle import mesh as M
from ..oracle import structure as S

ID = "C19"
RULE = (
    "Recorders on applies() of every strategy class and on find_strategies. Oracle: a second implementation written from the "
    "statement: a core strategy applies iff for one of the 8 images of the basis (isometries of the square) every required "
    "pattern contains a basis element (definitional containment) and every other basis element has the prescribed shape (first "
    "entry 0 / last entry n-1 / remainder sum- or skew-indecomposable / avoids the small mesh pattern / last component "
    "condition, all from vf/oracle/structure.py); the insertion-encoding strategy iff the C13 theorem holds; the simples "
    "strategy iff the class test PinWords.has_finite_simples succeeds. Metamorphic: reordering, repetition, container type, all 8 "
    "symmetries; quick search = slow search minus the slow strategies. Non-trivial = distinct bases with >=1 core strategy applying "
    "or exactly one condition short of it."
)
ASSUMPTIONS = ["bases containing the length-1 permutation are outside the domain (shape helpers assert non-empty remainders), see DESIGN §3"]
REQUIRED = ["history.class_enumerated_first", "env.shards_with_other_hashseed", "calls.find_strategies", "calls.InsertionEncodingStrategy.applies", "calls.FinitelyManySimplesStrategy.applies", "core.applies_true",
            "core.applies_false", "symmetry.checked", "quick_vs_slow.checked", "near_miss.bases", "error_path.failed_calls"] + [f"calls.{c.__name__}.applies" for c in CS.core_strategies]
MIN_NONTRIVIAL = 60
CTX = None
MON = None

R_U, C_U, R_D, C_D = (1, 2, 0, 3), (2, 0, 1, 3), (1, 3, 0, 2), (2, 0, 3, 1)
MESH_CELLS = frozenset([(0, 1), (0, 2), (1, 0), (1, 1), (1, 2), (2, 1), (2, 2)])


def rest(p):
    """p = 1 (+) rest  (requires p[0] == 0)"""
    return tuple(v - 1 for v in p[1:])


def strip_first(p):
    return rest(p) if p and p[0] == 0 else tuple(p)


def strip_last(p):
    return tuple(p[:-1]) if p and p[-1] == len(p) - 1 else tuple(p)


def one_plus_skew_indecomposable(p):
    return len(p) > 0 and p[0] == 0 and S.skew_indecomposable(rest(p))


def one_plus_sum_indecomposable(p):
    return len(p) > 0 and p[0] == 0 and S.sum_indecomposable(rest(p))


def last_sum_comp(p):
    return S.sum_components(p)[-1]


def last_skew_comp(p):
    return S.skew_components(p)[-1]


def shape_rd2134(p):
    if not (len(p) > 1 and p[0] == 0):
        return False if len(p) <= 1 and (len(p) == 0 or p[0] != 0) else None
    q = rest(p)
    comp = last_sum_comp(q)
    decreasing = not C.contains(comp, (0, 1))
    return (not M.contains(q, (1, 0), MESH_CELLS)) and (not decreasing or len(comp) == 1)


def shape_ru2143(p):
    q = strip_first(p)
    if not q:
        return None
    comp = last_skew_comp(q)
    increasing = not C.contains(comp, (1, 0))
    return (not M.contains(q, (0, 1), MESH_CELLS)) and not increasing


SPEC = {
    "RuCuCoreStrategy": ({R_U, C_U}, one_plus_skew_indecomposable),
    "RdCdCoreStrategy": ({R_D, C_D}, one_plus_sum_indecomposable),
    "RuCuRdCdCoreStrategy": ({R_U, C_U, R_D, C_D}, lambda p: len(p) > 0 and p[0] == 0),
    "RuCuCdCoreStrategy": ({R_U, C_U, C_D}, one_plus_skew_indecomposable),
    "RdCdCuCoreStrategy": ({R_D, C_D, C_U}, lambda p: one_plus_sum_indecomposable(strip_last(p))),
    "RdCuCoreStrategy": ({R_D, C_U}, lambda p: one_plus_skew_indecomposable(p) and one_plus_sum_indecomposable(strip_last(p))),
    "Rd2134CoreStrategy": ({R_D, (1, 0, 2, 3)}, shape_rd2134),
    "Ru2143CoreStrategy": ({R_U, (1, 0, 3, 2)}, shape_ru2143),
}


def images(ts):
    return {frozenset(G.act_perm(m, t) for t in ts) for m in G.SYMS.values()}


def core_applies(name, ts):
    needed, shape = SPEC[name]
    for img in images(ts):
        if all(any(C.contains(q, b) for b in img) for q in needed):
            verdicts = [shape(b) for b in img - needed]
            if None in verdicts:
                return None  # outside the domain of the shape helpers
            if all(verdicts):
                return True
    return False


def report(check, args, detail):
    CTX.fail(check, args, detail)


def in_domain(ts):
    return ts and all(len(t) >= 2 for t in ts)


def post_core(name):
    def post(args, kwargs, res, exc):
        if not all(isinstance(b, Perm) for b in args[0].basis):
            return  # not permutations: outside the domain (the error-path workload passes such values on purpose)
        ts = sorted(tuple(b) for b in args[0].basis)
        if not in_domain(ts):
            return
        want = core_applies(name, ts)
        if want is None:
            CTX.count("core.outside_domain")
            return
        CTX.ev()
        CTX.count("core.applies_true" if want else "core.applies_false")
        if exc is not None or res is not want:
            report("basis", [[list(t) for t in ts]], f"{name}({ts}).applies() = {res!r} ({exc!r}); required patterns excluded and shapes of the other elements "
                   f"(in some symmetric image) give {want}")
        elif want:
            CTX.nt((name, tuple(ts)))
    return post


def post_insenc(args, kwargs, res, exc):
    if not all(isinstance(b, Perm) for b in args[0].basis):
        return
    ts = [tuple(b) for b in args[0].basis]
    CTX.ev()
    want = K.insenc_rightmost(ts) or K.insenc_topmost(ts)
    if exc is not None or res is not want:
        report("basis", [[list(t) for t in ts]], f"InsertionEncodingStrategy({ts}).applies() = {res!r} ({exc!r}), theorem gives {want}")


def post_simples(args, kwargs, res, exc):
    basis = args[0].basis
    CTX.ev()
    with monitor.GUARD:
        want = PinWords.has_finite_simples(sorted(basis))
    if exc is not None or res is not want:
        report("basis", [[list(t) for t in sorted(basis)]], f"FinitelyManySimplesStrategy.applies() = {res!r} ({exc!r}), the class test says {want}")


def setup(ctx):
    global CTX, MON
    CTX = ctx
    MON = m = monitor.Monitors(ctx)
    def dispatch(args, kwargs, res, exc):
        name = type(args[0]).__name__
        CTX.count(f"calls.{name}.applies")
        if name in SPEC:
            post_core(name)(args, kwargs, res, exc)

    m.wrap(CS.EnumerationStrategyWithSymmetry, "applies", dispatch, label="core.applies")
    m.wrap(InsertionEncodingStrategy, "applies", post_insenc)
    m.wrap(FinitelyManySimplesStrategy, "applies", post_simples)
    m.wrap(ES, "find_strategies", lambda a, k, r, e: None, label="find_strategies")
    ctx._tmp = tempfile.mkdtemp(prefix="vf-c19-")
    ctx._cwd = os.getcwd()
    os.chdir(ctx._tmp)


def teardown(ctx):
    MON.uninstall()
    os.chdir(ctx._cwd)
    import shutil

    shutil.rmtree(ctx._tmp, ignore_errors=True)


def names(strats):
    return sorted(type(s).__name__ for s in strats)


def chk_basis(ctx, basis, slow):
    ts = [tuple(b) for b in basis]
    if not in_domain(ts):
        return
    B = [Perm(t) for t in ts]
    if ctx.rng.random() < 0.5:
        # error path first: the same basis as plain tuples (not Perm objects) makes the library raise; the corrected
        # call right after it must be unaffected
        for bad in ([tuple(t) for t in ts], [list(t) for t in ts][:1] + [None]):
            try:
                ES.find_strategies(bad, False)
            except Exception:
                ctx.count("error_path.failed_calls")
    if ctx.rng.random() < 0.3:
        # history with another public feature: the (process-wide, shared) class object of this basis is enumerated first
        from permuta import Av

        try:
            av = Av(list(B))
            av.count(ctx.rng.choice([5, 6, 7])), Perm(tuple(range(6))) in av
            ctx.count("history.class_enumerated_first")
        except ValueError:
            pass
    fast = names(ES.find_strategies(B, False))
    ctx.ev()
    want_fast = sorted(n for n in SPEC if core_applies(n, ts)) + (["InsertionEncodingStrategy"] if (K.insenc_rightmost(ts) or K.insenc_topmost(ts)) else [])
    if None in [core_applies(n, ts) for n in SPEC]:
        ctx.count("core.outside_domain")
        return
    if fast != sorted(want_fast):
        report("basis", [basis, slow], f"find_strategies({ts}, False) reports {fast}, the stated conditions give {sorted(want_fast)}")
    if any(core_applies(n, ts) for n in SPEC):
        ctx.nt(("applies", tuple(sorted(ts))))
    # metamorphic: order, repetition, container, symmetries
    variants = [B[::-1], B + B[:1], tuple(B), set(B), frozenset(B)]  # (a one-shot iterator is outside C19's quantifier: find_strategies consumes it in the first strategy)
    for var in variants:
        ctx.ev()
        got = names(ES.find_strategies(var, False))
        if got != fast:
            report("basis", [basis, slow], f"reported set changes with order / repetition / container: {got} vs {fast}")
    for sname, m in G.SYMS.items():
        img = [Perm(G.act_perm(m, t)) for t in ts]
        ctx.ev()
        ctx.count("symmetry.checked")
        got = names(ES.find_strategies(img, False))
        if got != fast:
            report("basis", [basis, slow], f"reported set changes under the symmetry {sname}: {got} vs {fast}")
    if slow:
        full = names(ES.find_strategies(B, True))
        ctx.ev()
        ctx.count("quick_vs_slow.checked")
        slow_names = {c.__name__ for c in ES.long_enumeration_strategies}
        if sorted(n for n in full if n not in slow_names) != fast:
            report("basis", [basis, slow], f"quick search {fast} is not the slow search {full} minus the slow strategies")
        PinWords.load_dfa_for_perm.cache_clear()
        want_simple = PinWords.has_finite_simples(B)
        if ("FinitelyManySimplesStrategy" in full) is not want_simple:
            report("basis", [basis, slow], f"simples strategy reported={('FinitelyManySimplesStrategy' in full)}, class test={want_simple}")
    # every strategy class individually
    for cls in ES.all_enumeration_strategies:
        if cls is FinitelyManySimplesStrategy and not slow:
            continue
        cls(B).applies()


CHECKS = {"basis": chk_basis}


def shaped_pool():
    """every permutation of length 2..5 with the verdict of each shape predicate (so near misses are in the pool too)"""
    return [p for k in range(2, 6) for p in itertools.permutations(range(k))]


def plan(tier, seed):
    n = 960 if tier == "quick" else 6000
    specs = [{"name": f"bases-{i}", "kind": "bases", "count": n // 16, "maxlen": 5 if tier == "quick" else 6} for i in range(16)]
    # the same kind of work in interpreters started with other string-hash seeds (iteration order of sets of names / strings)
    specs += [{"name": f"bases-hashseed-{j}", "kind": "bases", "count": n // 48, "maxlen": 5, "env": {"PYTHONHASHSEED": str(1 + j + 13 * seed)}}
              for j in range(8 if tier == "quick" else 16)]
    return specs


def run(ctx, spec):
    rng = ctx.rng
    pool = shaped_pool()
    if spec["maxlen"] == 6:
        pool += [tuple(rng.sample(range(6), 6)) for _ in range(300)]
    core = [R_U, C_U, R_D, C_D, (1, 0, 2, 3), (1, 0, 3, 2)]
    names_ = list(SPEC)
    for i in range(spec["count"]):
        name = rng.choice(names_)
        needed, shape = SPEC[name]
        basis = set(needed) if rng.random() < 0.8 else set(rng.sample(core, rng.randint(1, 4)))
        # sometimes exclude a required pattern through a smaller basis element instead of listing it
        if rng.random() < 0.25 and basis:
            q = rng.choice(sorted(basis))
            basis.discard(q)
            pos = sorted(rng.sample(range(4), 3))
            basis.add(C.std([q[j] for j in pos]))
        good = [p for p in pool if shape(p) is True and p not in needed]
        bad = [p for p in pool if shape(p) is False and p not in needed]
        for _ in range(rng.choice([0, 1, 1, 2])):
            basis.add(rng.choice(good))
        if rng.random() < 0.35 and bad:
            basis.add(rng.choice(bad))  # near miss: one element of the wrong shape
            ctx.count("near_miss.bases")
        if rng.random() < 0.2:
            basis.discard(rng.choice(sorted(basis)))  # near miss: a required pattern no longer excluded
            ctx.count("near_miss.bases")
        if not basis:
            continue
        m = rng.choice(list(G.SYMS.values()))
        img = [list(G.act_perm(m, t)) for t in sorted(basis)]
        rng.shuffle(img)
        chk_basis(ctx, img, slow=(i % 4 == 0 and all(len(t) <= 4 for t in img)))
    ctx.sample({"basis": img, "constructed_for": name})
