"""C17 BiSC output describes its input: sound up to n, complete up to m, irredundant."""
import contextlib
import io
import itertools
import os

from permuta import MeshPatt, Perm
import sys

import permuta.bisc.bisc  # noqa: F401  (the package re-exports the function under the same name)

BM = sys.modules["permuta.bisc.bisc"]
from permuta.bisc import bisc_subfunctions as BS
from permuta.bisc import perm_properties as PP

from .. import monitor
from ..conv import plain
from ..oracle import classical as C
from ..oracle import mesh as M

ID = "C17"
RULE = (
    "Recorders on bisc, perm_contains_cl_patts_many_shadings, patterns_suffice_for_good/bad, run_clean_up, to_sg_format and "
    "maximal_mesh_pattern_of_occurrence. For every run bisc(A, m, n) on an arbitrary finite set A: sound (every member of A of "
    "length <= n avoids every learned mesh pattern, oracle cell geometry), complete (every non-member of length <= m contains one), "
    "irredundant (every learned shading minus one cell occurs in a member of A or contains a strictly shorter learned pattern, oracle "
    "mesh-in-mesh containment); the private containment test agrees with mesh containment on every permutation <= n; every basis of "
    "the clean-up phase hits every bad permutation it was run on; list / dictionary / predicate inputs give equal output; "
    "auto_bisc (thorough) descriptions coincide with the property on S_0..S_8. "
    "Non-trivial = distinct (A, m, n) with a non-empty output + distinct irredundancy cells."
)
ASSUMPTIONS = ["dictionary inputs have every key 0..n (as create_bisc_input / read_bisc_file produce)", "oracle: vf/oracle/mesh.py"]
REQUIRED = ["calls.bisc", "calls.perm_contains_cl_patts_many_shadings", "calls.run_clean_up", "calls.to_sg_format", "calls.maximal_mesh_pattern_of_occurrence",
            "sound.perms_checked", "complete.perms_checked", "irredundant.cells_checked", "cleanup.bases_checked", "representations.compared", "private_containment.checked", "repeat_calls.compared", "default_n.compared", "sparse.runs",
            "auto_bisc.runs", "auto_bisc.branch.basis_fails_longer_bad_perms", "auto_bisc.branch.basis_fails_good_perms", "auto_bisc.branch.more_patterns_needed"]
MIN_NONTRIVIAL = 100
CTX = None
MON = None
SILENT = [True]


def report(check, args, detail):
    CTX.fail(check, args, detail)


def quiet():
    return contextlib.redirect_stdout(io.StringIO())


def sg_plain(SG):
    """learned patterns as a list of (tuple, frozenset)"""
    out = []
    for _k, d in SG.items():
        for patt, shadings in d.items():
            for sh in shadings:
                out.append((tuple(patt), frozenset(tuple(c) for c in sh)))
    return out


def levels_of(A, n):
    """A given as list / dict / predicate -> dict length -> set of tuples, lengths 0..n"""
    lv = {i: set() for i in range(n + 1)}
    if isinstance(A, list):
        for p in A:
            if len(p) <= n:
                lv[len(p)].add(tuple(p))
    elif isinstance(A, dict):
        for i in range(n + 1):
            lv[i] = {tuple(p) for p in A.get(i, [])}
    else:
        for i in range(n + 1):
            lv[i] = {t for t in C.all_perms(i) if A(Perm(t))}
    return lv


def judge_output(A, m, n, SG, case):
    lv = levels_of(A, n)
    patts = sg_plain(SG)
    # sound up to n
    for i in range(n + 1):
        for a in lv[i]:
            CTX.count("sound.perms_checked")
            hit = next((q for q in patts if M.contains(a, q[0], q[1])), None)
            if hit is not None:
                CTX.ev()
                report("run", case, f"unsound: member {a} of the input contains the learned pattern ({hit[0]}, {sorted(hit[1])})")
                return
    CTX.ev()
    # complete up to m
    for i in range(m + 1):
        for t in C.all_perms(i):
            if t in lv[i]:
                continue
            CTX.count("complete.perms_checked")
            if not any(M.contains(t, q[0], q[1]) for q in patts):
                CTX.ev()
                report("run", case, f"incomplete: {t} is not in the input (length <= m={m}) but contains none of the {len(patts)} learned patterns")
                return
    CTX.ev()
    # irredundant
    members = [a for i in range(n + 1) for a in lv[i]]
    for (p, R) in patts:
        for c in R:
            CTX.count("irredundant.cells_checked")
            R2 = R - {c}
            ok = any(M.contains(a, p, R2) for a in members if len(a) >= len(p))
            if not ok:
                ok = any(len(q[0]) < len(p) and M.mesh_contains_mesh((p, R2), q) for q in patts)
            if not ok:
                CTX.ev()
                report("run", case, f"redundant cell: ({p}, {sorted(R)}) minus cell {c} neither occurs in a member of the input nor contains a shorter learned pattern")
                return
            CTX.nt(("cell", p, tuple(sorted(R)), c, m, n, len(members)))
    CTX.ev()
    if patts:
        CTX.nt(("run", repr(sorted(members))[:2000], m, n))


CURRENT = [None]


def post_bisc(args, kwargs, res, exc):
    A, m = args[0], args[1]
    n = args[2] if len(args) > 2 else kwargs.get("n")
    case = CURRENT[0] or ["adhoc"]
    if exc is not None:
        CTX.ev()
        report("run", case, f"bisc raised {exc!r}")
        return
    if n is None:
        n = max(A.keys()) if isinstance(A, dict) else (max((len(p) for p in A), default=0) if isinstance(A, list) else 7)
    if n > 6:
        CTX.count("oracle_skipped")
        return
    judge_output(A, m, n, res, case)


def post_private(args, kwargs, res, exc):
    perm, SG = args[0], args[1]
    CTX.ev()
    CTX.count("private_containment.checked")
    t = tuple(perm)
    want = any(M.contains(t, q[0], q[1]) for q in sg_plain(SG))
    if exc is not None or res is not want:
        report("run", CURRENT[0] or ["adhoc"], f"perm_contains_cl_patts_many_shadings({t}, ...) = {res!r} ({exc!r}), mesh containment gives {want}")


def post_suffice(kind):
    def post(args, kwargs, res, exc):
        SG, L, D = args[0], args[1], args[2]
        if exc is not None or L > 6:
            return
        CTX.ev()
        patts = sg_plain(SG)
        if any(i not in D for i in range(L + 1)):
            return
        if kind == "good":
            want = not any(M.contains(tuple(a), q[0], q[1]) for i in range(L + 1) for a in D[i] for q in patts)
        else:
            want = all(any(M.contains(tuple(b), q[0], q[1]) for q in patts) for i in range(L + 1) for b in D[i])
        if res[0] is not want:
            report("run", CURRENT[0] or ["adhoc"], f"patterns_suffice_for_{kind} = {res[0]!r}, mesh containment gives {want}")
    return post


def post_cleanup(args, kwargs, res, exc):
    SG, B = args[0], args[1]
    bm = args[2] if len(args) > 2 else kwargs.get("bm")
    if exc is not None:
        CTX.ev()
        report("run", CURRENT[0] or ["adhoc"], f"run_clean_up raised {exc!r}")
        return
    bases, table = res
    if bm is None:
        bm = max(B.keys())
    lo = min(SG.keys())
    for base in bases:
        CTX.ev()
        CTX.count("cleanup.bases_checked")
        patts = [(tuple(table[i][0]), frozenset(tuple(c) for c in table[i][1])) for i in base]
        for L in range(lo, min(bm, 6) + 1):
            for b in B.get(L, []):
                if not any(M.contains(tuple(b), q[0], q[1]) for q in patts):
                    report("run", CURRENT[0] or ["adhoc"], f"clean-up basis {base} does not occur in the bad permutation {tuple(b)} it was run on")
                    return


def post_to_sg(args, kwargs, res, exc):
    basis, table = args[0], args[1]
    if exc is not None:
        return
    CTX.ev()
    want = sorted((tuple(table[i][0]), tuple(sorted(table[i][1]))) for i in basis)
    got = sorted((tuple(p), tuple(sorted(sh))) for _k, d in res.items() for p, shs in d.items() for sh in shs)
    if got != want or any(len(p) != k for k, d in res.items() for p in d):
        report("run", CURRENT[0] or ["adhoc"], f"to_sg_format lost or altered patterns: {got} vs {want}")


def post_maximal(args, kwargs, res, exc):
    perm, occ = tuple(args[0]), tuple(args[1])
    if exc is not None:
        return
    CTX.ev()
    k = len(occ)
    vals = sorted(perm[i] for i in occ)
    occupied = {M.cell_of(j, perm[j], occ, vals) for j in range(len(perm)) if j not in occ}
    want = {(x, y) for x in range(k + 1) for y in range(k + 1)} - occupied
    if set(map(tuple, res)) != want:
        report("maximal", [list(perm), list(occ)], f"maximal_mesh_pattern_of_occurrence({perm}, {occ}) = {sorted(res)}, complement of the occupied cells is {sorted(want)}")


def setup(ctx):
    global CTX, MON
    CTX = ctx
    MON = m = monitor.Monitors(ctx)
    wrapped = {}
    for name, post in (("perm_contains_cl_patts_many_shadings", post_private), ("patterns_suffice_for_good", post_suffice("good")),
                       ("patterns_suffice_for_bad", post_suffice("bad")), ("run_clean_up", post_cleanup), ("to_sg_format", post_to_sg),
                       ("maximal_mesh_pattern_of_occurrence", post_maximal)):
        wrapped[name] = m.wrap(BS, name, post, label=name)
    for name, fn in wrapped.items():  # names bound at import time in bisc.py
        if hasattr(BM, name):
            m.saved.append((BM, name, getattr(BM, name)))
            setattr(BM, name, fn)
    m.wrap(BM, "bisc", post_bisc, label="bisc")


def teardown(ctx):
    MON.uninstall()


# ---- replayable check ----------------------------------------------------------------------------------------------------
def chk_run(ctx, members, m, n, light=False):
    """members: list of permutations (lists) = the finite set A.  light: only the dictionary form is mined (the monitor judges
    soundness, completeness and irredundancy of its output); used for the many small sparse sets"""
    CURRENT[0] = [members, m, n, light]
    try:
        if light:
            with quiet():
                BM.bisc({i: [Perm(p) for p in members if len(p) == i] for i in range(n + 1)}, m, n)
            return
        A_list = [Perm(p) for p in members]
        A_dict = {i: [Perm(p) for p in members if len(p) == i] for i in range(n + 1)}
        mem = {tuple(p) for p in members}

        def A_pred(perm):
            return tuple(perm) in mem

        with quiet():
            out_list = BM.bisc(A_list, m, n)
            out_dict = BM.bisc(A_dict, m, n)
            out_pred = BM.bisc(A_pred, m, n)
        # the caller's data must not be altered, and asking again with the very same objects gives the same answer
        snapshot = {k: [tuple(q) for q in v] for k, v in A_dict.items()}
        with quiet():
            again_dict = BM.bisc(A_dict, m, n)
            again_list = BM.bisc(A_list, m, n)
            verbose = BM.bisc(A_dict, m, n, report=True)
        ctx.ev()
        if sorted((q[0], tuple(sorted(q[1]))) for q in sg_plain(verbose)) != sorted((q[0], tuple(sorted(q[1]))) for q in sg_plain(out_dict)):
            report("run", CURRENT[0], "bisc(..., report=True) returns a different output than report=False")
        ctx.ev()
        ctx.count("repeat_calls.compared")
        same = lambda x, y: sorted((q[0], tuple(sorted(q[1]))) for q in sg_plain(x)) == sorted((q[0], tuple(sorted(q[1]))) for q in sg_plain(y))  # noqa: E731
        if {k: [tuple(q) for q in v] for k, v in A_dict.items()} != snapshot or len(A_list) != len(members):
            report("run", CURRENT[0], "bisc altered the dictionary / list it was given")
        if not same(again_dict, out_dict) or not same(again_list, out_list):
            report("run", CURRENT[0], "a second call with the same input objects gives a different output")
        ctx.ev()
        ctx.count("representations.compared")
        a, b, c = (sorted((q[0], tuple(sorted(q[1]))) for q in sg_plain(o)) for o in (out_list, out_dict, out_pred))
        if not (a == b == c):
            report("run", CURRENT[0], f"list / dictionary / predicate inputs give different outputs: {len(a)}, {len(b)}, {len(c)} patterns")
        # n omitted: the longest permutations given decide it - also when some shorter lengths do not occur at all in a list
        for drop in (None, 0, ctx.rng.randint(0, max(0, n - 1))):
            sub_members = [p for p in members if drop is None or len(p) != drop]
            L = max((len(p) for p in sub_members), default=0)
            if not sub_members or m > L:
                continue
            sub_list = [Perm(p) for p in sub_members]
            sub_dict = {i: [Perm(p) for p in sub_members if len(p) == i] for i in range(L + 1)}
            import collections

            dd = collections.defaultdict(list)  # the dictionary kind the library builds itself: only the lengths that occur
            for q in sub_list:
                dd[len(q)].append(q)
            with quiet():
                d_list, d_dict, e_list = BM.bisc(sub_list, m), BM.bisc(sub_dict, m), BM.bisc(sub_list, m, L)
                try:
                    d_dd = BM.bisc(dd, m, L)
                except Exception as exc:  # pylint: disable=broad-except
                    report("run", CURRENT[0], f"bisc on a defaultdict(list) holding only the lengths that occur raised {exc!r}")
                    d_dd = e_list
            ctx.ev()
            ctx.count("default_n.compared")
            if not same(d_dd, e_list):
                report("run", CURRENT[0], "bisc on a defaultdict(list) holding only the lengths that occur gives another output than the list form")
            if not (same(d_list, e_list) and same(d_dict, e_list)):
                report("run", CURRENT[0], f"bisc with n omitted (list without length {drop}: {len(sg_plain(d_list))} patterns, dictionary: {len(sg_plain(d_dict))}) differs from "
                       f"n = {L}, the longest length given ({len(sg_plain(e_list))} patterns)")
        SG = out_dict
        # the private containment test on every permutation up to n
        for i in range(n + 1):
            for t in C.all_perms(i):
                BS.perm_contains_cl_patts_many_shadings(Perm(t), SG)
        if SG and any(SG[k] for k in SG):
            B = {i: [Perm(t) for t in C.all_perms(i) if t not in mem] for i in range(n + 1)}
            with quiet():
                BS.patterns_suffice_for_good(SG, n, A_dict)
                BS.patterns_suffice_for_bad(SG, min(m, n), B)
                nshad = 1
                for patt in SG[min(SG.keys())]:
                    nshad *= len(SG[min(SG.keys())][patt])
                if nshad <= 64 and len(SG[min(SG.keys())]) <= 6:
                    bases, table = BS.run_clean_up(SG, B, n, limit_monitors=len(SG[min(SG.keys())]) + 1)
                    for base in bases[:3]:
                        BS.to_sg_format(base, table)
    finally:
        CURRENT[0] = None


def chk_maximal(ctx, perm, occ):
    BS.maximal_mesh_pattern_of_occurrence(Perm(perm), tuple(occ))


PROPS = {
    "stack_sortable": lambda p: p.avoids(Perm((1, 2, 0))),
    "smooth": PP.smooth, "west_2": lambda p: p.west_2_stack_sortable(), "quick_sortable": lambda p: p.quick_sortable(),
    "simsun": PP.simsun, "baxter": PP.baxter,
}


# mesh-avoidance properties that drive auto_bisc through its retry branches (found by a random search over 560 such properties;
# which branches a run took is read off the driver's own progress messages and recorded in the evidence)
AUTO_MESH = {
    "mesh-a": [[[0, 1], [[0, 2], [1, 0], [2, 1]]], [[0, 1, 2], [[0, 1], [0, 3], [1, 1], [1, 2], [3, 1], [3, 2], [3, 3]]]],
    "mesh-b": [[[2, 0, 1], [[0, 0], [0, 1], [1, 0], [1, 3], [2, 2], [2, 3]]], [[1, 0, 2], [[0, 1], [1, 2], [1, 3], [2, 3], [3, 0], [3, 1], [3, 3]]]],
    "mesh-c": [[[1, 2, 0], [[0, 0], [0, 2], [1, 2], [2, 2]]], [[1, 2, 0], [[1, 0], [1, 1], [1, 2], [2, 0], [3, 0], [3, 2], [3, 3]]]],
    "mesh-d": [[[1, 2, 0], [[1, 0], [1, 3]]], [[1, 2, 0], [[1, 3], [3, 2]]]],
    "mesh-e": [[[0, 1, 2], [[0, 3], [2, 1], [2, 3]]], [[0, 1, 2], [[1, 0], [1, 2], [1, 3], [2, 1], [2, 3], [3, 0], [3, 1]]], [[0, 1, 2], [[0, 1], [1, 0], [1, 2], [2, 3], [3, 2]]]],
    "mesh-f": [[[2, 0, 1], [[0, 1], [1, 0], [1, 1]]], [[2, 0, 1], [[0, 1], [0, 3], [1, 2], [3, 1], [3, 3]]]],
}
BRANCHES = {"A bad basis was chosen": "auto_bisc.branch.basis_fails_longer_bad_perms", "This is a bad basis": "auto_bisc.branch.basis_fails_good_perms",
            "No bases found": "auto_bisc.branch.more_patterns_needed", "Need to learn longer patterns": "auto_bisc.branch.longer_patterns_needed"}


def chk_auto(ctx, name):
    """auto_bisc on a named property: the returned description coincides with the property on S_0..S_8"""
    CURRENT[0] = [name]
    try:
        if name in AUTO_MESH:
            from permuta import MeshPatt

            mps = [MeshPatt(Perm(p), [tuple(c) for c in sh]) for p, sh in AUTO_MESH[name]]
            plain_patts = [(tuple(p), frozenset(tuple(c) for c in sh)) for p, sh in AUTO_MESH[name]]

            def prop(perm):
                return all(perm.avoids(m) for m in mps)

            fn = lambda perm: M.avoids_all(tuple(perm), plain_patts)  # the property by the oracle's definition
        else:
            fn = PROPS[name]
            import types

            prop = types.FunctionType(fn.__code__, fn.__globals__, name, fn.__defaults__, fn.__closure__) if not isinstance(fn, types.FunctionType) else fn
        buf = io.StringIO()
        with contextlib.redirect_stdout(buf):
            sg = BM.auto_bisc(prop)
        for msg, counter in BRANCHES.items():
            if msg in buf.getvalue():
                ctx.count(counter, buf.getvalue().count(msg))
        ctx.ev()
        ctx.count("auto_bisc.runs")
        if sg is None:
            ctx.count("auto_bisc.no_description")
            return
        patts = sg_plain(sg)
        for i in range(9):
            for t in C.all_perms(i):
                want = bool(fn(Perm(t)))
                got = not any(M.contains(t, q[0], q[1]) for q in patts)
                if want is not got:
                    report("auto", [name], f"auto_bisc({name}) returned {patts}; on {t} the property is {want} but avoidance of the description is {got}")
                    return
        ctx.nt(("auto", name))
    finally:
        CURRENT[0] = None


CHECKS = {"run": chk_run, "maximal": chk_maximal, "auto": chk_auto}


def random_set(rng, n):
    kind = rng.randrange(5)
    members = []
    if kind <= 1:
        dens = rng.choice([0.2, 0.5, 0.8, 0.95])
        for i in range(n + 1):
            members += [list(t) for t in C.all_perms(i) if rng.random() < dens]
    else:
        patts = []
        for _ in range(rng.randint(1, 2)):
            k = rng.randint(2, 3)
            p = tuple(rng.sample(range(k), k))
            patts.append((p, frozenset((x, y) for x in range(k + 1) for y in range(k + 1) if rng.random() < rng.choice([0.0, 0.1, 0.3]))))
        av = [list(t) for i in range(n + 1) for t in C.all_perms(i) if M.avoids_all(t, patts)]
        if kind == 2:
            members = av
        elif kind == 3:
            avs = {tuple(a) for a in av}
            members = [list(t) for i in range(n + 1) for t in C.all_perms(i) if t not in avs]
        else:
            extra = [list(t) for i in range(n + 1) for t in C.all_perms(i) if rng.random() < 0.05]
            members = [list(t) for t in {tuple(x) for x in av + extra}]
    return members


def plan(tier, seed):
    runs = 1200 if tier == "quick" else 8000
    specs = [{"name": f"runs-{i}", "kind": "runs", "count": runs // 16, "nmax": 5 if tier == "quick" else 6} for i in range(16)]
    specs += [{"name": f"auto-{name}", "kind": "auto", "prop": name} for name in (("mesh-a", "mesh-c", "mesh-d") if tier == "quick" else AUTO_MESH)]
    # sparse sets that are not pattern classes (few permutations, mostly of the top length): where minimal shadings are many
    # and the search for them branches most
    specs += [{"name": f"sparse-{i}", "kind": "sparse", "count": (4800 if tier == "quick" else 40000) // 16} for i in range(16)]
    if tier == "thorough":
        specs += [{"name": f"auto-{name}", "kind": "auto", "prop": name} for name in ("stack_sortable", "smooth", "west_2", "quick_sortable")]
    return specs


def run(ctx, spec):
    rng = ctx.rng
    if spec["kind"] == "auto":
        chk_auto(ctx, spec["prop"])
        return
    if spec["kind"] == "sparse":
        for _ in range(spec["count"]):
            n = rng.choice([4, 4, 5])
            k = rng.randint(2, 6)
            members = [rng.sample(range(n), n) for _ in range(k)] + [rng.sample(range(j), j) for j in range(n) if rng.random() < 0.3]
            members = [list(t) for t in {tuple(x) for x in members}]
            chk_run(ctx, members, 3, n, light=True)
            ctx.count("sparse.runs")
        ctx.sample({"sparse_A": members})
        return
    for _ in range(spec["count"]):
        n = rng.randint(2, spec["nmax"])
        m = rng.randint(1, min(4, n))
        members = random_set(rng, n)
        chk_run(ctx, members, m, n)
        p = rng.sample(range(n), n)
        chk_maximal(ctx, p, sorted(rng.sample(range(n), rng.randint(0, n))))
    ctx.sample({"A_size": len(members), "m": m, "n": n, "A_first": members[:6]})
