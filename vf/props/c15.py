"""C15 The basis automaton accepts exactly the pin sequences containing a basis element."""
import functools
import itertools
import os
import tempfile

from permuta import Perm
from permuta.permutils.pin_words import PinWords

from .. import monitor
from ..oracle import automata as AU
from ..oracle import classical as C
from ..oracle import pins as P

ID = "C15"
RULE = (
    "Recorders on PinWords.make_dfa_for_perm / make_dfa_for_basis_from_pinwords / make_dfa_for_basis_from_db / "
    "make_dfa_for_basis / has_finite_pinperms. Every returned automaton is run (own simulation on its transition table and "
    "the library's accepts_input) on every word of the pin-sequence language M up to length L and must accept exactly those "
    "whose decoded pin permutation (own translation M-word -> strict pin word -> exact-rational placement) contains a basis "
    "element; rejected-word counts per length (own path counting on the product with M) must equal the number of avoiding pin "
    "sequences; has_finite_pinperms must equal finiteness of L(M) minus L(A) by own cycle detection; database, from-scratch and "
    "per-permutation-union automata must be language-equivalent by own product search. "
    "Non-trivial = distinct (basis, word) with the word accepted and length >= 3."
)
ASSUMPTIONS = ["acceptance of words longer than L (8 quick / 11 thorough) is covered only through automaton-vs-automaton equivalence",
               "reads only states/transitions/initial_state/final_states of automata-lib DFA objects"]
REQUIRED = ["history.sequences", "env.shards_with_other_hashseed", "planted.words_decided", "calls.PinWords.make_dfa_for_perm", "calls.PinWords.make_dfa_for_basis_from_pinwords", "calls.PinWords.make_dfa_for_basis_from_db",
            "calls.PinWords.has_finite_pinperms", "words.decided", "words.accepted", "words.rejected", "equivalence.checked", "finite.true", "finite.false",
            "counts.lengths_checked", "nonpin.bases"]
MIN_NONTRIVIAL = 500
CTX = None
MON = None
LW = {"v": 8}
MZ = AU.m_automaton()


def report(check, args, detail):
    CTX.fail(check, args, detail)


@functools.lru_cache(maxsize=None)
def mwords(n):
    return tuple(P.m_words(n))


@functools.lru_cache(maxsize=400000)
def perm_of_mword(w):
    if len(w) < 2:
        return ()
    return P.perm_of_word(P.m_to_sp(w))


def contains_basis(w, basis):
    t = perm_of_mword(w)
    return any(C.contains(t, b) for b in basis)


def judge_dfa(dfa, basis, label, L=None):
    """word-level semantics of one automaton object"""
    L = LW["v"] if L is None else L
    basis = [tuple(b) for b in basis]
    A = AU.read(dfa)
    rejected = [0] * (L + 1)
    case = [[list(b) for b in basis], label]
    for n in range(L + 1):
        for w in mwords(n):
            want = contains_basis(w, basis)
            got = AU.accepts(A, w)
            CTX.ev()
            CTX.count("words.decided")
            CTX.count("words.accepted" if want else "words.rejected")
            if got is not want:
                report("basis", case, f"{label}: automaton for {basis} {'accepts' if got else 'rejects'} {w!r} but its pin permutation "
                       f"{perm_of_mword(w)} {'contains' if want else 'avoids'} the basis")
                return
            if not want:
                rejected[n] += 1
            elif n >= 3:
                CTX.nt((tuple(basis), w))
    # the library's own acceptor on a sample (guards against a table / acceptor mismatch)
    for w in mwords(min(L, 6))[:: 7]:
        CTX.ev()
        if dfa.accepts_input(w) is not AU.accepts(A, w):
            report("basis", case, f"{label}: accepts_input({w!r}) disagrees with the transition table")
    counts = AU.difference_counts(MZ, A, L)
    CTX.ev()
    CTX.count("counts.lengths_checked", L + 1)
    if counts != rejected:
        report("basis", case, f"{label}: words of M rejected per length {counts}, avoiding pin sequences per length {rejected}")


def post_dfa(label, get_basis):
    def post(args, kwargs, res, exc):
        basis = get_basis(args)
        if basis is None:
            return
        if exc is not None:
            CTX.ev()
            report("basis", [[list(b) for b in basis], label], f"{label}({basis}) raised {exc!r}")
            return
        judge_dfa(res, basis, label, L=min(LW["v"], 7) if label != "driver" else None)
    return post


def post_finite(args, kwargs, res, exc):
    basis = list(args[1])
    use_db = args[2] if len(args) > 2 else kwargs.get("use_db", False)
    dfa = args[3] if len(args) > 3 else kwargs.get("dfa")
    CTX.ev()
    if exc is not None:
        report("basis", [[list(b) for b in basis], "has_finite_pinperms"], f"has_finite_pinperms raised {exc!r}")
        return
    if dfa is None:
        with monitor.GUARD:
            dfa = PinWords.make_dfa_for_basis(basis, use_db)
    want = AU.difference_is_finite(MZ, AU.read(dfa))
    CTX.count("finite.true" if want else "finite.false")
    if res is not want:
        report("basis", [[list(b) for b in basis], "has_finite_pinperms"], f"has_finite_pinperms({basis}) = {res!r}, L(M) minus L(A) is "
               f"{'finite' if want else 'infinite'} by cycle detection")
    # bounded semantic consequence
    counts = AU.difference_counts(MZ, AU.read(dfa), 14)
    if want and counts[-1] != 0:
        CTX.count("finite.unconfirmed_within_14")
    if not want and 0 in counts[2:]:
        report("basis", [[list(b) for b in basis], "has_finite_pinperms"], f"declared infinitely many pin permutations but none of length where counts={counts}")


def as_basis(x):
    try:
        b = [tuple(p) for p in x]
    except TypeError:
        return None
    return b if all(C.is_perm(p) for p in b) else None


def setup(ctx):
    global CTX, MON
    CTX = ctx
    if ctx.tier == "thorough":
        LW["v"] = 11
    MON = m = monitor.Monitors(ctx)
    m.wrap(PinWords, "make_dfa_for_perm", post_dfa("make_dfa_for_perm", lambda a: [tuple(a[1])]))
    m.wrap(PinWords, "make_dfa_for_basis_from_pinwords", post_dfa("make_dfa_for_basis_from_pinwords", lambda a: as_basis(a[1])))
    m.wrap(PinWords, "make_dfa_for_basis_from_db", post_dfa("make_dfa_for_basis_from_db", lambda a: as_basis(a[1])))
    m.wrap(PinWords, "has_finite_pinperms", post_finite)
    # each check works in its own empty directory: the DFA store uses cwd-relative paths
    ctx._tmp = tempfile.mkdtemp(prefix="vf-c15-")
    ctx._cwd = os.getcwd()
    os.chdir(ctx._tmp)


def teardown(ctx):
    MON.uninstall()
    os.chdir(ctx._cwd)
    import shutil

    shutil.rmtree(ctx._tmp, ignore_errors=True)


def chk_basis(ctx, basis, label="driver"):
    B = [Perm(b) for b in basis]
    fresh = PinWords.make_dfa_for_basis_from_pinwords(B)
    judge_dfa(fresh, basis, "driver")
    PinWords.load_dfa_for_perm.cache_clear()
    fromdb = PinWords.make_dfa_for_basis_from_db(B)
    viaflag = PinWords.make_dfa_for_basis(B, use_db=True)
    union = None
    for b in B:
        d = PinWords.make_dfa_for_perm(b)
        union = d if union is None else union.union(d)
    A0 = AU.read(fresh)
    for name, other in (("database", fromdb), ("use_db flag", viaflag), ("union of per-permutation automata", union)):
        ctx.ev()
        ctx.count("equivalence.checked")
        diff = AU.equivalent(A0, AU.read(other))
        if diff is not None:
            report("basis", [basis, label], f"{name} automaton differs from the from-scratch automaton on {diff!r}")
    a = PinWords.has_finite_pinperms(B)
    b = PinWords.has_finite_pinperms(B, use_db=True)
    c = PinWords.has_finite_pinperms(B, dfa=fresh)
    ctx.ev()
    if not (a is b is c):
        report("basis", [basis, label], f"has_finite_pinperms differs by source: scratch {a}, db {b}, given dfa {c}")


def colliding_bases(rng, count):
    """pairs of DIFFERENT bases whose one-line notations, written one after the other without separators, read the same
    (e.g. 10,012 and 01,210): whatever is keyed or named by such a concatenation confuses them"""
    pool = [p for k in (2, 3, 4) for p in itertools.permutations(range(k))]
    seen, pairs = {}, []
    cands = [tuple(c) for r in (2, 3) for c in (rng.sample(pool, r) for _ in range(6000))]
    for basis in cands:
        strs = ["".join(map(str, p)) for p in basis]
        for key in ("".join(sorted(strs)), "".join(sorted(strs, key=lambda s: (len(s), s)))):
            other = seen.setdefault(key, basis)
            if set(other) != set(basis) and len(pairs) < count * 4:
                pairs.append((other, basis))
    rng.shuffle(pairs)
    return [([list(p) for p in a], [list(p) for p in b]) for a, b in pairs[:count]]


def chk_history(ctx, bases):
    """several bases through the SAME process and automaton store, one after the other (each call judged by the monitors):
    colliding notations, and a basis followed by its own proper prefixes"""
    for basis in bases:
        B = [Perm(b) for b in basis]
        PinWords.make_dfa_for_basis_from_pinwords(B)
        PinWords.make_dfa_for_basis_from_db(B)
        PinWords.make_dfa_for_basis(B, use_db=True)
        PinWords.has_finite_pinperms(B), PinWords.has_finite_pinperms(B, use_db=True)
    ctx.count("history.sequences")


def chk_planted(ctx, m, seed):
    """a long basis element given by a pin sequence m (8-9 letters, self-overlapping ones favoured): pin sequences in which m
    is planted after one of its own prefixes (so that a match starts inside a failed attempt) are judged by real containment"""
    import random

    rng = random.Random(seed)
    u = P.m_to_sp(m)
    b = P.perm_of_word(u)
    dfa = PinWords.make_dfa_for_perm(Perm(b))
    A = AU.read(dfa)
    words = set()
    for k in range(len(m) + 1):
        for tail in ("", rng.choice("ULDR"), rng.choice("ULDR") + rng.choice("ULDR")):
            for w in (m[:k] + m + tail, m[:k] + m[1:] + tail, m[:k] + m[:-1] + tail):
                if P.in_m(w) and len(w) <= 16:
                    words.add(w)
    for w in sorted(words):
        want = contains_basis(w, [b])
        got = AU.accepts(A, w)
        ctx.ev()
        ctx.count("planted.words_decided")
        if want:
            ctx.nt(("planted", m, w))
        if got is not want:
            report("planted", [m, seed], f"automaton of {b} (pin sequence {m}) {'accepts' if got else 'rejects'} {w!r} but its pin permutation "
                   f"{perm_of_mword(w)} {'contains' if want else 'avoids'} it")
            return


CHECKS = {"basis": chk_basis, "planted": chk_planted, "history": chk_history}


def plan(tier, seed):
    small = [list(p) for k in (1, 2, 3) for p in itertools.permutations(range(k))]
    s4 = [list(p) for p in itertools.permutations(range(4))]
    if tier == "quick":
        bases = [[p] for p in small] + [[s4[i]] for i in (1, 4, 7, 10, 13, 16, 19, 22)] + [[[0, 2, 1], [2, 3, 0, 1]], [[1, 2, 0], [1, 0, 2]], [[1, 3, 0, 2], [2, 0, 3, 1]]]
        nrand = 12
    else:
        bases = [[p] for p in small + s4] + [[a, b] for a, b in itertools.combinations(small[3:] + s4[::3], 2)][::4]
        nrand = 40
    # degenerate and unordered bases: the empty permutation (contained in everything), repeated elements, lengths not grouped
    bases += [[[]], [[], [0, 1, 2]], [[0, 2, 1], []], [[1, 0], [], [2, 0, 1]], [[0, 1, 2], [0, 1, 2]], [[0]], [[0], [1, 0]],
              [[2, 0, 3, 1], [0, 1, 2], [1, 0, 3, 2]], [[2, 0, 1], [1, 2, 3, 0], [2, 1, 0]], [[0, 1, 2, 3], [1, 0], [3, 2, 1, 0], [0, 1]]]
    parts = 16
    specs = [{"name": f"bases-{i}", "kind": "bases", "bases": bases[i::parts], "rand": max(0, nrand // parts + (i < nrand % parts))} for i in range(parts)]
    specs += [dict(specs[j], name=f"bases-hashseed-{j}", env={"PYTHONHASHSEED": str(977 + 31 * j + seed)}) for j in (0, 5)]
    specs.append({"name": "nonpin", "kind": "nonpin", "count": 2 if tier == "quick" else 3})
    specs.append({"name": "planted", "kind": "planted", "count": 6 if tier == "quick" else 40})
    specs += [{"name": f"history-{i}", "kind": "history", "count": 3 if tier == "quick" else 12} for i in range(2 if tier == "quick" else 6)]
    return specs


def nonpin_bases(rng):
    """bases whose smallest element (in the library's order) has NO pin word: its automaton is the empty language"""
    pin6 = {P.perm_of_word(w) for w in P.valid_words(6)}
    allp = list(C.all_perms(6))
    nonpin = [t for t in allp if t not in pin6]
    CTX.counters["nonpin.length6_found"] = len(nonpin)
    out = []
    if nonpin:
        a = nonpin[0]
        out.append([list(a), list(nonpin[-1])])
        bigger_pin = next((t for t in allp if t > a and t in pin6), None)
        if bigger_pin:
            out.append([list(a), list(bigger_pin)])
        b = rng.choice(nonpin)
        later = [t for t in allp if t > b and t in pin6]
        if later:
            out.append([list(b), list(rng.choice(later))])
    return out


def run(ctx, spec):
    rng = ctx.rng
    if spec.get("kind") == "history":
        for a, b in colliding_bases(rng, spec["count"]):
            chk_history(ctx, [a, b, a])
        for _ in range(spec["count"]):
            basis = [rng.sample(range(k), k) for k in (rng.choice([3, 4, 4]) for _ in range(rng.randint(2, 3)))]
            chk_history(ctx, [basis, basis[:-1], basis[:1], basis[1:], basis])
        ctx.sample({"history_basis": basis})
        return
    if spec.get("kind") == "planted":
        fixed = ["URULURUL", "ULURULUR", "RURDRURD", "DLDRDLDR"]
        for i in range(spec["count"]):
            if i < len(fixed):
                m = fixed[i]
            else:
                half = rng.choice(P.m_words(4))
                m = half + half if P.in_m(half + half) else rng.choice(P.m_words(8))
            chk_planted(ctx, m, rng.randrange(10 ** 9))
        ctx.sample({"planted_pin_sequence": m})
        return
    if spec.get("kind") == "nonpin":
        for basis in nonpin_bases(rng)[: spec["count"]]:
            chk_basis(ctx, basis)
            ctx.count("nonpin.bases")
        ctx.sample({"nonpin_basis": basis})
        return
    for basis in spec["bases"]:
        chk_basis(ctx, basis)
    for _ in range(spec["rand"]):
        basis = [rng.sample(range(k), k) for k in (rng.choice([2, 3, 3, 4]) for _ in range(rng.randint(2, 3)))]
        if rng.random() < 0.5:  # lengths deliberately not grouped
            basis = [rng.sample(range(4), 4), rng.sample(range(3), 3), rng.sample(range(4), 4)]
        chk_basis(ctx, basis)
    ctx.sample({"bases": spec["bases"][:2], "word_length_bound": LW["v"]})
    ctx.note(f"every M-word of length <= {LW['v']} against each basis; db/scratch/union equivalence by product search")
