"""C20 Persisted and shipped BiSC data and stored automata are faithful."""
import contextlib
import io
import json
import os
import shutil
import sys
import tempfile

import permuta.bisc.bisc  # noqa: F401
from permuta import Perm
from permuta.permutils.pin_words import PinWords

from .. import monitor
from ..oracle import automata as AU
from ..oracle import classical as C
from ..oracle import mesh as M
from ..oracle import pins as P
from ..oracle import sorting as SO

BM = sys.modules["permuta.bisc.bisc"]

ID = "C20"
RULE = (
    "History + model. BiSC files: random sequences of write_bisc_files (same name again with another property, other names, "
    "other lengths), read_bisc_file, reads of missing / truncated / garbage / emptied files, in a fresh temp directory (sometimes "
    "pre-populated); model = name -> last dataset written; every read must return exactly the model's dictionaries or {} for a "
    "missing/malformed file. DFA store: store / load / create_dfa_db_for_length / make_dfa_for_basis_from_db with the memoised "
    "loader cleared or not and the working directory changed between operations; every loaded automaton must be language-"
    "equivalent (own product search) to a fresh computation and correct on all short pin-sequence words. A sys.addaudithook "
    "recorder checks that only the expected file names are opened for writing. Shipped data: every file under resources/bisc is "
    "parsed independently (json) and via read_bisc_file and must be exactly the partition of S_0..S_N by the property it is named "
    "after, computed with the independent C12 definitions. Non-trivial = distinct histories with an overwrite or a malformed read + "
    "distinct (shipped file, length) blocks verified."
)
ASSUMPTIONS = ["the two data files emptied by the environment (SimSun_bad_len9, av_231_and_mesh_bad_len9) must be reported invalid and are otherwise skipped",
               "quick checks shipped data up to length 6, thorough every length"]
REQUIRED = ["env.shards_with_other_hashseed", "calls.write_bisc_files", "calls.read_bisc_file", "calls.PinWords.store_dfa_for_perm", "calls.PinWords.load_dfa_for_perm",
            "history.overwrites", "history.malformed_reads", "history.reads_decided", "dfa.loads_decided", "shipped.blocks_verified",
            "shipped.files", "audit.open_events", "emptied_files.reported_invalid", "faults.injected", "dfa.threaded_rounds", "aliasing.read_results_mutated", "history.convention_change_sequences", "history.shipped_names_missing", "history.raw_writes_long_perms", "dfa.nonpin_perms_in_pool", "shipped.blocks_checked_against_library_predicate"]
MIN_NONTRIVIAL = 60
CTX = None
MON = None
FAULTS = None
YIELDS = None
AUDIT = {"on": False, "events": []}
MZ = AU.m_automaton()
EMPTIED = {"SimSun_bad_len9", "av_231_and_mesh_bad_len9"}


def report(check, args, detail):
    CTX.fail(check, args, detail)


def quiet():
    return contextlib.redirect_stdout(io.StringIO())


def audit(event, args):
    if AUDIT["on"] and event == "open" and isinstance(args[0], (str, bytes, os.PathLike)):
        AUDIT["events"].append((str(args[0]), args[1]))


PROPS = {
    "av231": (lambda p: p.avoids(Perm((1, 2, 0))), lambda t: not C.contains(t, (1, 2, 0))),
    "av123": (lambda p: p.avoids(Perm((0, 1, 2))), lambda t: not C.contains(t, (0, 1, 2))),
    "even_len_or_fixed0": (lambda p: len(p) % 2 == 0 or p[0] == 0, lambda t: len(t) % 2 == 0 or t[0] == 0),
    "all": (lambda p: True, lambda t: True),
    "none": (lambda p: False, lambda t: False),
    "involution": (lambda p: p.is_involution(), lambda t: all(t[t[i]] == i for i in range(len(t)))),
    # properties that differ only in their convention for very short permutations (they agree on every length >= 2)
    "dec": (lambda p: p.is_decreasing(), lambda t: all(a > b for a, b in zip(t, t[1:]))),
    "dec_ge2": (lambda p: len(p) >= 2 and p.is_decreasing(), lambda t: len(t) >= 2 and all(a > b for a, b in zip(t, t[1:]))),
    "len_ge2": (lambda p: len(p) >= 2, lambda t: len(t) >= 2),
    "len_ge1_av231": (lambda p: len(p) >= 1 and p.avoids(Perm((1, 2, 0))), lambda t: len(t) >= 1 and not C.contains(t, (1, 2, 0))),
}
CONVENTION_PAIRS = [("dec", "dec_ge2"), ("dec_ge2", "dec"), ("all", "len_ge2"), ("len_ge2", "all"), ("av231", "len_ge1_av231"), ("len_ge1_av231", "av231")]


def dataset(propname, n):
    orc = PROPS[propname][1]
    good = {k: [t for t in C.all_perms(k) if orc(t)] for k in range(n + 1)}
    bad = {k: [t for t in C.all_perms(k) if not orc(t)] for k in range(n + 1)}
    return good, bad


def norm(d):
    return {int(k): [tuple(p) for p in v] for k, v in d.items()}


def setup(ctx):
    global CTX, MON
    CTX = ctx
    MON = m = monitor.Monitors(ctx)
    m.wrap(BM, "write_bisc_files", lambda a, k, r, e: None, label="write_bisc_files")
    m.wrap(BM, "read_bisc_file", lambda a, k, r, e: None, label="read_bisc_file")
    m.wrap(PinWords, "store_dfa_for_perm", lambda a, k, r, e: None)
    m.wrap(PinWords, "load_dfa_for_perm", post_load)
    sys.addaudithook(audit)
    ctx._cwd = os.getcwd()
    global FAULTS
    io_functions = {"store_dfa_for_perm", "load_dfa_for_perm", "create_dfa_db_for_length", "make_dfa_for_basis_from_db"}
    codes = [c for c in monitor.class_code_objects(PinWords, "pin_words.py") if c.co_name not in io_functions]
    FAULTS = monitor.FaultInjector(codes)
    global YIELDS
    YIELDS = monitor.YieldInjector([c for c in monitor.class_code_objects(PinWords, "pin_words.py") if c.co_name in io_functions],
                                   seed=ctx.seed, p=0.5)


def teardown(ctx):
    AUDIT["on"] = False
    FAULTS.close()
    YIELDS.close()
    MON.uninstall()
    os.chdir(ctx._cwd)


def judge_dfa(dfa, perm, case):
    t = tuple(perm)
    A = AU.read(dfa)
    for n in range(0, 7):
        for w in P.m_words(n):
            want = C.contains(P.perm_of_word(P.m_to_sp(w)) if n >= 2 else (), t)  # words shorter than 2 encode no pin
            if AU.accepts(A, w) is not want:
                CTX.ev()
                report(*case, f"loaded automaton for {t} {'accepts' if not want else 'rejects'} {w!r} wrongly")
                return False
    return True


def post_load(args, kwargs, res, exc):
    perm = args[1]
    if isinstance(exc, monitor.InjectedFault):
        return
    case = CURRENT[0] or ("dfa", [[["load", list(perm)]], 0])
    CTX.ev()
    CTX.count("dfa.loads_decided")
    if exc is not None:
        report(*case, f"load_dfa_for_perm({tuple(perm)}) raised {exc!r}")
        return
    if not judge_dfa(res, perm, case):
        return
    if len(perm) <= 4:
        fresh = PinWords.make_dfa_for_perm(perm)  # does not touch the database (and must not: other threads use the cwd)
        diff = AU.equivalent(AU.read(res), AU.read(fresh))
        if diff is not None:
            report(*case, f"loaded automaton for {tuple(perm)} differs from a fresh computation on {diff!r}")


CURRENT = [None]


# ---- BiSC file histories ---------------------------------------------------------------------------------------------------------
def chk_files(ctx, ops, prepopulate):
    """ops: ['write', n, propname, name] | ['read', name, kind, n] | ['corrupt', name, kind, n, how] | ['delete', name, kind, n]"""
    CURRENT[0] = ("files", [ops, prepopulate])
    tmp = tempfile.mkdtemp(prefix="vf-c20-")
    old = os.getcwd()
    model = {}
    overwrote = malformed = False
    try:
        os.chdir(tmp)
        if prepopulate:
            with open("zz_good_len2.json", "w") as fh:
                fh.write(json.dumps({"0": [[]], "1": [[0]], "2": [[0, 1]]}))
            model["zz_good_len2"] = {0: [()], 1: [(0,)], 2: [(0, 1)]}
            with open("stale_good_len3.json", "w") as fh:
                fh.write("not json at all")
            model["stale_good_len3"] = None
        for op in ops:
            kind = op[0]
            if kind == "write":
                _, n, propname, name = op
                AUDIT["events"], AUDIT["on"] = [], True
                with quiet():
                    BM.write_bisc_files(n, PROPS[propname][0], name)
                AUDIT["on"] = False
                good, bad = dataset(propname, n)
                for key, val in ((f"{name}_good_len{n}", good), (f"{name}_bad_len{n}", bad)):
                    if key in model:
                        overwrote = True
                        ctx.count("history.overwrites")
                    model[key] = val
                ctx.ev()
                written = sorted(os.path.basename(p) for p, mode in AUDIT["events"] if mode and any(c in mode for c in "wax+"))
                ctx.count("audit.open_events", len(AUDIT["events"]))
                outside = [p for p, mode in AUDIT["events"] if mode and any(c in mode for c in "wax+")
                           and not os.path.realpath(p).startswith(os.path.realpath(tmp) + os.sep)]
                if outside:
                    report("files", [ops, prepopulate], f"write_bisc_files({n}, {propname}, {name!r}) wrote outside the working directory: {outside}")
            elif kind == "write_raw":
                # a sparse data set with long permutations, written with the module's own low-level writer
                _, name, gb, n, lengths, rseed = op
                import random as _random

                r2 = _random.Random(rseed)
                data = {L: [Perm(r2.sample(range(L), L)) for _ in range(r2.randint(0, 3))] for L in lengths}
                key = f"{name}_{gb}_len{n}"
                with quiet():
                    BM.write_json_to_file(data, key + ".json")
                if key in model:
                    overwrote = True
                model[key] = {L: [tuple(q) for q in v] for L, v in data.items()}
                ctx.count("history.raw_writes_long_perms")
            elif kind == "read":
                _, name, gb, n = op
                key = f"{name}_{gb}_len{n}"
                with quiet():
                    got = BM.read_bisc_file(key)
                ctx.ev()
                ctx.count("history.reads_decided")
                want = model.get(key)
                if want is None:
                    malformed = True
                    ctx.count("history.malformed_reads")
                    if got != {}:
                        report("files", [ops, prepopulate], f"read_bisc_file({key!r}) of a missing/malformed file returned data: {str(got)[:200]}")
                else:
                    if not isinstance(got, dict) or norm(got) != want or not all(type(p) is Perm for v in got.values() for p in v):
                        report("files", [ops, prepopulate], f"read_bisc_file({key!r}) returned {str(got)[:200]}, last written: {str(want)[:200]}")
                    elif got:
                        # aliasing: the caller alters what it was given; the next read of the untouched file must not change
                        for lst in got.values():
                            lst.append(Perm((0, 1, 2, 3, 4, 5, 6)))
                            del lst[:1]
                        got.pop(max(got))
                        ctx.count("aliasing.read_results_mutated")
                        with quiet():
                            again = BM.read_bisc_file(key)
                        ctx.ev()
                        if not isinstance(again, dict) or norm(again) != want:
                            report("files", [ops, prepopulate], f"after the caller altered an earlier result, read_bisc_file({key!r}) no longer returns the last written data")
            elif kind == "corrupt":
                _, name, gb, n, how = op
                key = f"{name}_{gb}_len{n}"
                path = key + ".json"
                if os.path.exists(path):
                    data = open(path).read()
                    new_content = {"truncate": data[: len(data) // 2], "garbage": "}{" + data, "empty": "", "list": "[1, 2, 3]", "double": data + data,
                                   "string": '"' + 'x' * 5 + '"', "second_line": "\n" + data}[how]
                    with open(path, "w") as fh:
                        fh.write(new_content)
                    # what the file now holds, by an independent parse of its first line (half of a doubled file is the file again)
                    try:
                        obj = json.loads(new_content.split("\n")[0])
                        model[key] = {int(k): [tuple(q) for q in v] for k, v in obj.items()} if isinstance(obj, dict) else None
                    except (ValueError, TypeError, AttributeError):
                        model[key] = None
            elif kind == "delete":
                _, name, gb, n = op
                key = f"{name}_{gb}_len{n}"
                if os.path.exists(key + ".json"):
                    os.unlink(key + ".json")
                    model[key] = None
        # closing state: every file of the model reads back as the model says
        for key, want in model.items():
            with quiet():
                got = BM.read_bisc_file(key)
            ctx.ev()
            if (want is None and got != {}) or (want is not None and norm(got) != want):
                report("files", [ops, prepopulate], f"final read of {key!r} disagrees with the last write")
        if overwrote or malformed:
            ctx.nt(("files", repr(ops), prepopulate))
    finally:
        os.chdir(old)
        shutil.rmtree(tmp, ignore_errors=True)
        CURRENT[0] = None


# ---- DFA store histories ------------------------------------------------------------------------------------------------------------
def chk_dfa(ctx, ops, seed):
    """ops: ['store', perm] | ['load', perm] | ['clear'] | ['chdir', k] | ['db', n] | ['basis', [perms]]"""
    CURRENT[0] = ("dfa", [ops, seed])
    dirs = [tempfile.mkdtemp(prefix="vf-c20d-") for _ in range(2)]
    old = os.getcwd()
    try:
        os.chdir(dirs[0])
        PinWords.load_dfa_for_perm.cache_clear()
        for op in ops:
            kind = op[0]
            if kind == "store":
                AUDIT["events"], AUDIT["on"] = [], True
                PinWords.store_dfa_for_perm(Perm(op[1]))
                AUDIT["on"] = False
                ctx.ev()
                name = "".join(map(str, op[1])) + ".txt"
                written = [p for p, mode in AUDIT["events"] if mode and any(c in mode for c in "wax+")]
                here = os.path.realpath(os.getcwd()) + os.sep
                if any(not os.path.realpath(p).startswith(here) for p in written):
                    report("dfa", [ops, seed], f"store_dfa_for_perm({op[1]}) wrote outside the working directory: {written}")
                if not os.path.isfile(os.path.join("dfa_db", f"S{len(op[1])}", name)):
                    report("dfa", [ops, seed], f"store_dfa_for_perm({op[1]}) left no file dfa_db/S{len(op[1])}/{name}")
            elif kind == "load":
                PinWords.load_dfa_for_perm(Perm(op[1]))  # decided by the monitor
            elif kind == "fault":
                # the operation is aborted by an exception arriving at the k-th statement of the (long) computation of
                # the automaton - like Ctrl-C during create_dfa_db_for_length; the store must recover afterwards
                _, what, arg, k = op
                FAULTS.arm(k)
                try:
                    if what == "store":
                        PinWords.store_dfa_for_perm(Perm(arg))
                    elif what == "load":
                        PinWords.load_dfa_for_perm(Perm(arg))
                    else:
                        PinWords.create_dfa_db_for_length(arg)
                    ctx.count("faults.not_reached")
                except monitor.InjectedFault:
                    ctx.count("faults.injected")
                finally:
                    FAULTS.disarm()
            elif kind == "threads":
                # several threads store / load DIFFERENT permutations of one length at the same time
                import threading

                perms = [Perm(p) for p in op[1]]
                errs = []
                barrier = threading.Barrier(len(perms))

                def work(p):
                    try:
                        barrier.wait(timeout=30)
                        PinWords.store_dfa_for_perm(p)
                        PinWords.load_dfa_for_perm(p)
                    except BaseException as exc:  # noqa: B036
                        errs.append((tuple(p), repr(exc)))

                old_si = sys.getswitchinterval()
                sys.setswitchinterval(1e-6)
                YIELDS.on()  # yields at every statement of the store / load functions
                ths = [threading.Thread(target=work, args=(p,), daemon=True) for p in perms]
                [t.start() for t in ths]
                [t.join(120) for t in ths]
                YIELDS.off()
                ctx.counters["dfa.yields_injected"] = YIELDS.count
                sys.setswitchinterval(old_si)
                ctx.ev()
                ctx.count("dfa.threaded_rounds")
                if errs or any(t.is_alive() for t in ths):
                    report("dfa", [ops, seed], f"concurrent stores of different permutations failed: {errs[:3]}")
                PinWords.load_dfa_for_perm.cache_clear()
                for p in perms:
                    PinWords.load_dfa_for_perm(p)  # decided by the monitor against a fresh computation
            elif kind == "clear":
                PinWords.load_dfa_for_perm.cache_clear()
            elif kind == "chdir":
                os.chdir(dirs[op[1] % 2])
            elif kind == "db":
                PinWords.create_dfa_db_for_length(op[1])
                ctx.ev()
                have = sorted(os.listdir(os.path.join("dfa_db", f"S{op[1]}")))
                want = sorted("".join(map(str, t)) + ".txt" for t in C.all_perms(op[1]))
                if have != want:
                    report("dfa", [ops, seed], f"create_dfa_db_for_length({op[1]}) left files {have[:5]}..., want one per permutation")
            elif kind == "basis":
                B = [Perm(p) for p in op[1]]
                d1 = PinWords.make_dfa_for_basis_from_db(B)
                with monitor.GUARD:
                    d2 = PinWords.make_dfa_for_basis_from_pinwords(B)
                ctx.ev()
                diff = AU.equivalent(AU.read(d1), AU.read(d2))
                if diff is not None:
                    report("dfa", [ops, seed], f"automaton from the database for {op[1]} differs from the from-scratch one on {diff!r}")
        ctx.nt(("dfa", repr(ops)))
    finally:
        os.chdir(old)
        for d in dirs:
            shutil.rmtree(d, ignore_errors=True)
        CURRENT[0] = None


# ---- shipped data ----------------------------------------------------------------------------------------------------------------------
AV231M = [(1, 2, 0), ((0, 1, 5, 2, 3, 4), frozenset({(1, 6), (4, 5), (4, 6)}))]
SHIPPED = {
    "Baxter": SO.baxter, "SimSun": SO.simsun, "West_2_stack_sortable": lambda t: SO.is_id(SO.stack_pass(SO.stack_pass(t))),
    "av_231_and_mesh": lambda t: M.avoids_all(t, AV231M), "dihedral": SO.dihedral, "forest_like": SO.forest_like,
    "in_alternating_group": SO.alternating, "quick_sortable": lambda t: SO.is_id(SO.quick_pass(t)), "smooth": SO.smooth,
    "stack_sortable": lambda t: SO.is_id(SO.stack_pass(t)), "yt_perm_avoids_22": lambda t: not SO.yt_contains_22(t),
    "yt_perm_avoids_32": lambda t: not SO.yt_contains_32(t),
}


def resources_dir():
    import permuta

    return os.path.join(os.path.dirname(permuta.__file__), "resources", "bisc")


def chk_shipped(ctx, name, N, maxlen):
    """both files of one shipped data set"""
    base = resources_dir()
    stems = {gb: f"{name}_{gb}_len{N}" for gb in ("good", "bad")}
    data = {}
    for gb, stem in stems.items():
        path = os.path.join(base, stem)
        ctx.count("shipped.files")
        with quiet():
            got = BM.read_bisc_file(path)
        if stem in EMPTIED:
            ctx.ev()
            if got != {} or os.path.getsize(path + ".json") != 0:
                report("shipped", [name, N, maxlen], f"{stem}.json is listed as emptied by the environment but reads as data")
            else:
                ctx.count("emptied_files.reported_invalid")
            data[gb] = None
            continue
        with open(path + ".json") as fh:
            raw = json.load(fh)
        ctx.ev()
        if not isinstance(got, dict) or norm(got) != {int(k): [tuple(p) for p in v] for k, v in raw.items()}:
            report("shipped", [name, N, maxlen], f"read_bisc_file({stem}) differs from an independent parse of the file")
            return
        data[gb] = norm(got)
        if sorted(data[gb]) != list(range(N + 1)):
            report("shipped", [name, N, maxlen], f"{stem}: keys {sorted(data[gb])}, want 0..{N}")
            return
    orc = SHIPPED[name]
    for k in range(min(N, maxlen) + 1):
        good = data["good"][k] if data["good"] is not None else None
        bad = data["bad"][k] if data["bad"] is not None else None
        allp = list(C.all_perms(k))
        want_good = [t for t in allp if orc(t)]
        ctx.ev()
        msg = None
        if good is not None and (len(set(good)) != len(good) or sorted(good) != want_good):
            msg = f"{stems['good']} length {k}: {len(good)} entries, the property holds for {len(want_good)}; first difference {sorted(set(good) ^ set(want_good))[:3]}"
        if bad is not None and (len(set(bad)) != len(bad) or sorted(bad) != sorted(set(allp) - set(want_good))):
            msg = f"{stems['bad']} length {k}: {len(bad)} entries, the property fails for {len(allp) - len(want_good)}"
        if good is not None and bad is not None and (set(good) & set(bad) or len(good) + len(bad) != len(allp)):
            msg = f"{name} length {k}: good and bad are not a partition of S_{k}"
        if msg:
            report("shipped", [name, N, maxlen], msg)
            return
        ctx.count("shipped.blocks_verified")
        ctx.nt(("shipped", name, N, k))
    # the data set is named after a property the LIBRARY itself offers: the library's own predicate must split every length of
    # the files the same way (all lengths up to N, beyond the oracle's bound; a sample at length 9)
    from permuta.bisc import perm_properties as LPP

    lib = {"Baxter": LPP.baxter, "SimSun": LPP.simsun, "West_2_stack_sortable": lambda q: q.west_2_stack_sortable(), "av_231_and_mesh": LPP.av_231_and_mesh,
           "dihedral": LPP.dihedral, "forest_like": LPP.forest_like, "in_alternating_group": LPP.in_alternating_group,
           "quick_sortable": lambda q: q.quick_sortable(), "smooth": LPP.smooth, "stack_sortable": lambda q: q.stack_sortable(),
           "yt_perm_avoids_22": LPP.yt_perm_avoids_22, "yt_perm_avoids_32": LPP.yt_perm_avoids_32}.get(name)
    if lib is None:
        return
    for k in range(N + 1):
        for gb, expect in (("good", True), ("bad", False)):
            block = data[gb][k] if data[gb] is not None else None
            if block is None:
                continue
            step = 1 if k <= 8 else max(1, len(block) // 3000)
            wrong = [t for t in block[::step] if bool(lib(Perm(t))) is not expect]
            ctx.ev()
            ctx.count("shipped.blocks_checked_against_library_predicate")
            if wrong:
                report("shipped", [name, N, maxlen], f"{stems[gb]} length {k}: the library's own {name} predicate says {not expect} for {len(wrong)} listed permutations, e.g. {wrong[0]}")
                return


CHECKS = {"files": chk_files, "dfa": chk_dfa, "shipped": chk_shipped}


def shipped_sets():
    out = set()
    for f in os.listdir(resources_dir()):
        if f.endswith(".json"):
            stem = f[:-5]
            name, gb, ln = stem.rsplit("_", 2)
            out.add((name, int(ln[3:])))
    return sorted(out)


def plan(tier, seed):
    specs = []
    for name, N in shipped_sets():
        specs.append({"name": f"shipped-{name}-{N}", "kind": "shipped", "set": name, "N": N, "maxlen": 6 if tier == "quick" else N})
    nh, nd = (200, 96) if tier == "quick" else (2000, 600)
    specs += [{"name": f"hist-{i}", "kind": "hist", "files": nh // 8, "dfa": nd // 8} for i in range(8)]
    specs.append({"name": "hist-hashseed", "kind": "hist", "files": nh // 8, "dfa": nd // 8, "env": {"PYTHONHASHSEED": str(555 + seed)}})
    return specs


def run(ctx, spec):
    rng = ctx.rng
    if spec["kind"] == "shipped":
        if spec["set"] not in SHIPPED:
            ctx.ev()
            report("shipped", [spec["set"], spec["N"], spec["maxlen"]], f"shipped data set {spec['set']!r} is named after no known property")
            return
        chk_shipped(ctx, spec["set"], spec["N"], spec["maxlen"])
        ctx.note(f"shipped {spec['set']} len{spec['N']}: verified up to length {min(spec['N'], spec['maxlen'])}")
        ctx.sample({"shipped_set": spec["set"], "N": spec["N"], "verified_to": min(spec["N"], spec["maxlen"])})
        return
    names = ["x", "data", "x_y", "set.v2", "goodsort", "badsort", "a.good.b", "good_bad", "len3", "x.json"]
    for _ in range(spec["files"]):
        ops = []
        written = []
        for _ in range(rng.randint(3, 12)):
            c = rng.random()
            name, n = rng.choice(names), rng.randint(0, 4)
            if written and c >= 0.4 and rng.random() < 0.75:
                name, n = rng.choice(written)  # reads, corruptions and deletions mostly aim at files that exist
            gb = rng.choice(["good", "bad"])
            if c < 0.4:
                written.append((name, n))
                ops.append(["write", n, rng.choice(list(PROPS)), name])
            elif c < 0.75:
                ops.append(["read", name, gb, n])
            elif c < 0.9:
                ops.append(["corrupt", name, gb, n, rng.choice(["truncate", "garbage", "empty", "list", "double", "string", "second_line"])])
            else:
                ops.append(["delete", name, gb, n])
        if rng.random() < 0.5:  # force an overwrite followed by a read
            name, n = rng.choice(names), rng.randint(1, 4)
            p1, p2 = rng.sample(list(PROPS), 2)
            ops += [["write", n, p1, name], ["write", n, p2, name], ["read", name, "good", n], ["read", name, "bad", n]]
        if rng.random() < 0.4:
            # the same data set written for consecutive lengths with two properties that agree on the longer permutations
            # and differ only on the very short ones (a changed convention): the later files must follow the later property
            name, n = rng.choice(names), rng.randint(3, 4)
            a, b = rng.choice(CONVENTION_PAIRS)
            ops += [["write", n - 1, a, name], ["write", n, b, name], ["read", name, "good", n], ["read", name, "bad", n], ["read", name, "good", n - 1]]
            ctx.count("history.convention_change_sequences")
        if rng.random() < 0.4:
            # files that were never written but are named like data sets shipped with the library must read as missing
            ship = rng.choice(sorted(SHIPPED))
            ops.insert(rng.randint(0, len(ops)), ["read", ship, rng.choice(["good", "bad"]), rng.choice([8, 8, 9, 3])])
            if rng.random() < 0.5:
                ops += [["write", 2, "av231", ship], ["read", ship, "good", 8], ["read", ship, "good", 2]]
            ctx.count("history.shipped_names_missing")
        if rng.random() < 0.4:
            name, n = rng.choice(names), rng.choice([10, 11, 12, 13])
            gb = rng.choice(["good", "bad"])
            ops += [["write_raw", name, gb, n, sorted(rng.sample([0, 1, 3, 9, 10, 11, 12, 13], rng.randint(2, 5))), rng.randrange(10 ** 9)], ["read", name, gb, n]]
        pre = rng.random() < 0.3
        if pre:
            ops += [["read", "zz", "good", 2], ["read", "stale", "good", 3]]
        chk_files(ctx, ops, pre)
    pool = [list(t) for k in (1, 2, 3) for t in C.all_perms(k)] + [[1, 3, 0, 2], [0, 1, 2, 3], [2, 0, 3, 1]]
    if spec.get("dfa"):
        # permutations that are the permutation of NO pin word (their automaton accepts nothing); they exist from length 6 on
        from ..oracle import pins as PO

        nonpin6 = [list(t) for t in C.all_perms(6) if t not in PO.pin_perms(6)]
        pool += rng.sample(nonpin6, 2)
        ctx.count("dfa.nonpin_perms_in_pool")
    for _ in range(spec["dfa"]):
        ops = []
        for _ in range(rng.randint(3, 9)):
            c = rng.random()
            if c < 0.25:
                ops.append(["store", rng.choice(pool)])
            elif c < 0.6:
                ops.append(["load", rng.choice(pool)])
            elif c < 0.66:
                what = rng.choice(["store", "store", "load", "db"])
                arg = rng.choice([1, 2, 3]) if what == "db" else rng.choice(pool)
                ops.append(["fault", what, arg, rng.choice([1, 3, 10, 30, 100, 300, 1000, rng.randint(1, 5000)])])
                ops.append(["load", arg if what != "db" else rng.choice([p for p in pool if len(p) == arg] or pool)])
            elif c < 0.68:
                k = rng.choice([2, 3, 3, 4])
                ops.append(["threads", rng.sample([p for p in ([list(t) for t in C.all_perms(k)]) ], min(4, len(list(C.all_perms(k)))))])
            elif c < 0.7:
                ops.append(["clear"])
            elif c < 0.82:
                ops.append(["chdir", rng.randrange(2)])
            elif c < 0.88:
                ops.append(["db", rng.choice([1, 2, 2, 3])])
            else:
                ops.append(["basis", rng.sample(pool, rng.randint(1, 3))])
        if rng.random() < 0.5:
            k = rng.choice([2, 3, 3])
            ops.insert(rng.randrange(len(ops) + 1), ["threads", rng.sample([list(t) for t in C.all_perms(k)], min(4, len(list(C.all_perms(k)))))])
        chk_dfa(ctx, ops, rng.randrange(10 ** 6))
    ctx.sample({"file_history": ops})
