"""C10 Algebraic and structural operations return valid permutations obeying their laws."""
import itertools

import icontract

from permuta import Perm

from .. import monitor
from ..oracle import classical as C
from ..oracle import structure as S

ID = "C10"
RULE = (
    "icontract postconditions on every Perm-returning operation (result is a Perm that is a bijection of the documented "
    "length) plus recorders comparing each call of direct_sum, skew_sum, compose, insert, remove, remove_element, inflate, "
    "shift_*, sum/skew_decomposition, block_decomposition, monotone block decompositions, contract_*, monotone_quotient, "
    "maximum_block, is_simple, is_strongly_simple, is_sum/skew_decomposable, children, coveredby with point-set / "
    "definitional constructions (vf/oracle/structure.py). The workload drives all argument values on all small "
    "permutations and checks the laws (associativity, identity, (pq)^-1 = q^-1 p^-1, cyclic group action of shifts for "
    "amounts in [-2n, 2n], insert/remove inverse, children/coveredby duality, operators + - *). "
    "Non-trivial = distinct (operation, arguments) whose result differs from the receiver."
)
ASSUMPTIONS = ["is_simple for n <= 2 follows the definition 'no proper interval of length 2..n-1'"]
REQUIRED = ["receivers.user_subclasses", "laws.huge_shift_amounts", "laws.many_factors", "calls.Perm.direct_sum", "calls.Perm.skew_sum", "calls.Perm.compose", "calls.Perm.insert", "calls.Perm.remove",
            "calls.Perm.remove_element", "calls.Perm.inflate", "calls.Perm.shift_right", "calls.Perm.shift_up",
            "calls.Perm.sum_decomposition", "calls.Perm.skew_decomposition", "calls.Perm.block_decomposition",
            "calls.Perm.is_simple", "calls.Perm.children", "calls.Perm.coveredby", "calls.Perm.contract_bonds",
            "contracts.evaluated", "laws.checked", "inflate.with_empty_or_none", "aliasing.mutated_results"]
MIN_NONTRIVIAL = 2000
CTX = None
MON = None
CONTRACTED = []


class PostBroken(Exception):
    pass


def report(check, args, detail):
    CTX.fail(check, args, detail)


def valid(res):
    return isinstance(res, Perm) and sorted(res) == list(range(len(res)))


# ---- icontract conditions (named functions, explicit error=) --------------------------------------------------
def same_length(self, result):
    CTX.counters["contracts.evaluated"] += 1
    return valid(result) and len(result) == len(self)


def sum_length(_ARGS, result):
    CTX.counters["contracts.evaluated"] += 1
    return valid(result) and len(result) == sum(len(o) for o in _ARGS)


def one_longer(self, result):
    CTX.counters["contracts.evaluated"] += 1
    return valid(result) and len(result) == len(self) + 1


def one_shorter(self, result):
    CTX.counters["contracts.evaluated"] += 1
    return valid(result) and len(result) == max(0, len(self) - 1)


def any_valid(self, result):
    CTX.counters["contracts.evaluated"] += 1
    return valid(result)


CONTRACTS = {
    "inverse": same_length, "reverse": same_length, "complement": same_length, "reverse_complement": same_length,
    "rotate": same_length, "flip_antidiagonal": same_length, "shift_right": same_length, "shift_left": same_length,
    "shift_up": same_length, "shift_down": same_length, "compose": same_length,
    "direct_sum": sum_length, "skew_sum": sum_length, "insert": one_longer, "remove": one_shorter,
    "remove_element": one_shorter, "inflate": any_valid, "contract_inc_bonds": any_valid, "contract_dec_bonds": any_valid,
    "contract_bonds": any_valid, "monotone_quotient": any_valid, "stack_sort": same_length, "pop_stack_sort": same_length,
    "bubble_sort": same_length, "quick_sort": same_length,
}


# ---- oracle recorders ----------------------------------------------------------------------------------------------
def expect(label, fn, case=None):
    def post(args, kwargs, res, exc):
        self = tuple(args[0])
        if isinstance(exc, AssertionError) or not C.is_perm(self):
            CTX.count("skipped_outside_documented_domain")  # the library's own argument assertions
            return
        try:
            want = fn(self, *args[1:], **kwargs)
        except Skip:
            return
        except (IndexError, TypeError, ValueError, AssertionError):
            CTX.count("skipped_oracle_domain")
            return
        CTX.ev()
        ok = exc is None and norm(res) == want
        cargs = [list(self), enc_args(args[1:]), {k: enc_args([v])[0] for k, v in kwargs.items()}]
        if isinstance(exc, PostBroken):
            report("op", [label] + cargs, f"contract broken: Perm{self}.{label}{args[1:]} did not return a valid permutation of the documented length: {exc}")
        elif not ok:
            report("op", [label] + cargs, f"Perm{self}.{label}({enc_args(args[1:])}, {kwargs}) = {res!r} ({exc!r}), definition gives {want!r}")
        elif isinstance(res, Perm) and tuple(res) != self:
            CTX.nt((label, self, repr(enc_args(args[1:])), repr(kwargs)))
    return post


class Skip(Exception):
    pass


def norm(res):
    if isinstance(res, Perm):
        return tuple(res)
    if isinstance(res, list):
        return [norm(r) for r in res]
    if isinstance(res, tuple):
        return tuple(norm(r) for r in res)
    return res


def enc_args(args):
    out = []
    for a in args:
        if isinstance(a, Perm):
            out.append(list(a))
        elif isinstance(a, (list, tuple)):
            out.append([None if x is None else list(x) if isinstance(x, (Perm, tuple, list)) else x for x in a])
        else:
            out.append(a)
    return out


def o_insert(self, index=None, new_element=None):
    n = len(self)
    index = n if index is None else index
    new_element = n if new_element is None else new_element
    if not (0 <= index <= n + 1 and 0 <= new_element <= n):
        raise Skip
    return S.insert(self, min(index, n), new_element)


def o_remove(self, index=None):
    n = len(self)
    if index is None:
        return S.remove_value(self, n - 1) if n else ()
    if not -n <= index < n:
        raise Skip
    return S.remove_index(self, index % n)


def o_remove_element(self, selected=None):
    n = len(self)
    if selected is None:
        return S.remove_value(self, n - 1) if n else ()
    if not 0 <= selected < n:
        raise Skip
    return S.remove_value(self, selected)


def o_inflate(self, components):
    if not isinstance(components, (list, tuple)) or len(components) != len(self):
        raise Skip
    return S.inflate(self, [None if c is None else tuple(c) for c in components])


def o_maximum_block(self):
    ivs = S.intervals(self)
    if not ivs:
        return (0, 0)
    l = max(x[1] for x in ivs)
    return (l, min(s for s, ll in ivs if ll == l))


ORACLES = {
    "direct_sum": lambda self, *o: S.direct_sum(self, *map(tuple, o)),
    "skew_sum": lambda self, *o: S.skew_sum(self, *map(tuple, o)),
    "compose": lambda self, *o: S.compose(self, *map(tuple, o)),
    "inverse": lambda self: S.inverse(self),
    "insert": o_insert, "remove": o_remove, "remove_element": o_remove_element, "inflate": o_inflate,
    "shift_right": lambda self, times=1: S.shift_right(self, times),
    "shift_left": lambda self, times=1: S.shift_right(self, -times),
    "shift_up": lambda self, times=1: S.shift_up(self, times),
    "shift_down": lambda self, times=1: S.shift_up(self, -times),
    "sum_decomposition": lambda self: S.sum_components(self),
    "skew_decomposition": lambda self: S.skew_components(self),
    "block_decomposition": lambda self: S.block_decomposition(self),
    "maximum_block": o_maximum_block,
    "is_simple": lambda self: S.is_simple(self),
    "is_strongly_simple": lambda self: S.is_simple(self) and all(S.is_simple(c) for c in S.children(self)),
    "is_sum_decomposable": lambda self: not S.sum_indecomposable(self),
    "is_skew_decomposable": lambda self: not S.skew_indecomposable(self),
    "contract_inc_bonds": lambda self: S.contract(self, "inc"),
    "contract_dec_bonds": lambda self: S.contract(self, "dec"),
    "contract_bonds": lambda self: S.contract(self, "any"),
    "monotone_quotient": lambda self: S.contract(self, "any"),
}
ALIASES = {
    "compose": ("multiply",), "shift_right": ("shift", "cyclic_shift", "cyclic_shift_right"), "shift_left": ("cyclic_shift_left",),
    "block_decomposition": ("all_intervals", "decomposition"), "maximum_block": ("maximal_interval", "simple_location"),
    "is_sum_decomposable": ("sum_decomposable",), "is_skew_decomposable": ("skew_decomposable",),
}


def post_set(label, fn):
    def post(args, kwargs, res, exc):
        self = tuple(args[0])
        CTX.ev()
        want = fn(self)
        got = [tuple(q) for q in res] if exc is None else None
        if got is None or len(set(got)) != len(got) or set(got) != want or not all(valid(q) for q in res):
            report("op", [label, list(self), [], {}], f"Perm{self}.{label}() = {got} ({exc!r}), definition gives {sorted(want)}")
    return post


def done_mono(kind):
    def done(args, kwargs, items, exhausted, exc):
        if not exhausted:
            return
        self = tuple(args[0])
        with_ones = args[1] if len(args) > 1 else kwargs.get("with_ones", False)
        CTX.ev()
        want = S.monotone_blocks(self, kind, bool(with_ones))
        if [tuple(i) for i in items] != want:
            report("op", ["monotone:" + kind, list(self), [bool(with_ones)], {}], f"monotone blocks ({kind}, with_ones={with_ones}) of {self}: {items} want {want}")
    return done


def setup(ctx):
    global CTX, MON
    CTX = ctx
    MON = m = monitor.Monitors(ctx)
    # 1. icontract postconditions directly on the class attributes
    for name, cond in CONTRACTS.items():
        raw = Perm.__dict__[name]
        m.saved.append((Perm, name, raw))
        setattr(Perm, name, icontract.ensure(cond, error=PostBroken)(raw))
    # 2. recorders with the definitional oracle on top
    for name, fn in ORACLES.items():
        al = ALIASES.get(name, ())
        m.wrap(Perm, name, expect(name, fn), aliases=al)
    m.wrap(Perm, "children", post_set("children", S.children), aliases=("shrink_by_one",))
    m.wrap(Perm, "coveredby", post_set("coveredby", S.covers))
    m.wrap_gen(Perm, "monotone_block_decomposition", done_mono("any"), aliases=("all_monotone_intervals",))
    m.wrap_gen(Perm, "monotone_block_decomposition_ascending", done_mono("inc"))
    m.wrap_gen(Perm, "monotone_block_decomposition_descending", done_mono("dec"))


def teardown(ctx):
    MON.uninstall()


# ---- replayable checks ----------------------------------------------------------------------------------------------
def chk_op(ctx, label, p, args, kwargs):
    P = Perm(p)
    if label.startswith("monotone:"):
        kind = label.split(":")[1]
        name = {"any": "monotone_block_decomposition", "inc": "monotone_block_decomposition_ascending", "dec": "monotone_block_decomposition_descending"}[kind]
        list(getattr(P, name)(*args))
        return
    conv = []
    for a in args:
        if isinstance(a, list) and label in ("direct_sum", "skew_sum", "compose"):
            conv.append(Perm(a))
        elif isinstance(a, list) and label == "inflate":
            conv.append([None if c is None else Perm(c) for c in a])
        else:
            conv.append(a)
    try:
        getattr(P, label)(*conv, **kwargs)
    except (AssertionError, PostBroken):
        pass


class OneBased(Perm):
    """user subclass whose constructor reads 1-based values (the library's own results are plain Perm objects)"""

    def __new__(cls, values=()):
        return super().__new__(cls, [v - 1 for v in values])

    def __init__(self, values=()):
        super().__init__([v - 1 for v in values])


class Tagged(Perm):
    """user subclass with a mandatory extra constructor argument"""

    def __new__(cls, values, tag):
        return super().__new__(cls, values)

    def __init__(self, values, tag):
        super().__init__(values)
        self.tag = tag


def chk_subclass_receivers(ctx, p):
    """the operations on instances of user subclasses (same value): every call is judged by the contracts like any other"""
    n = len(p)
    for S in (OneBased([v + 1 for v in p]), Tagged(p, "x")):
        if tuple(S) != tuple(p):
            return
        for k in (0, 1, n - 1 if n else 0, -1, n + 2):
            S.shift_right(k), S.shift_left(k), S.shift_up(k), S.shift_down(k)
        S.inverse(), S.reverse(), S.complement(), S.rotate(), S.flip_antidiagonal()
        S.direct_sum(S), S.skew_sum(Perm(p)), S.compose(Perm(p)), Perm(p).compose(S)
        S.insert(0, 0), S.insert()
        if n:
            S.remove(0), S.remove_element(n - 1)
        S.sum_decomposition(), S.skew_decomposition(), S.contract_bonds(), S.monotone_quotient(), S.children(), S.coveredby()
        ctx.count("receivers.user_subclasses")


def chk_unary(ctx, p):
    """all argument values of the single-permutation operations + their laws"""
    P = Perm(p)
    n = len(P)
    for i in range(n + 2):
        for v in range(n + 1):
            Q = P.insert(i, v)
            ctx.ev()
            ctx.count("laws.checked")
            if Q.remove(min(i, n)) != P or Q.remove_element(v) != P:
                report("unary", [p], f"insert({i},{v}) followed by remove does not give back {P!r}")
    P.insert()
    P.insert(0)
    P.insert(new_element=0)
    for i in range(n):
        P.remove(i)
        P.remove_element(i)
    P.remove()
    P.remove_element()
    for i in range(1, n + 1):
        P.remove(-i)  # positions counted from the right end, as tuple indexing allows
    for k in range(-2 * n - 1, 2 * n + 2):
        a, b, c, d = P.shift_right(k), P.shift_left(k), P.shift_up(k), P.shift_down(k)
        ctx.ev()
        ctx.count("laws.checked")
        if not (a.shift_left(k) == P and c.shift_down(k) == P and b == P.shift_right(-k) and d == P.shift_up(-k)
                and (n == 0 or (P.shift_right(k % n) == a and P.shift_up(k + n) == c))
                and P.shift_right(k).shift_right(3) == P.shift_right(k + 3) and P.cyclic_shift(k) == a and P.shift(k) == a):
            report("unary", [p], f"shift laws fail for amount {k}")
    P.shift_right()
    P.shift_up()
    if n <= 4 or ctx.rng.random() < 0.1:
        chk_subclass_receivers(ctx, p)
    # shift amounts of any size act cyclically (amounts around the machine-word boundaries and far beyond)
    for big in (2 ** 31, -2 ** 31 - 1, 2 ** 63 - 1, 2 ** 63, -2 ** 63, -2 ** 63 - 1, 2 ** 64 + 1, 10 ** 30 + 7, -(10 ** 30) - 7):
        a, c = P.shift_right(big), P.shift_up(big)
        b, d = P.shift_left(big), P.shift_down(big)
        ctx.ev()
        ctx.count("laws.huge_shift_amounts")
        if n and not (a == P.shift_right(big % n) and c == P.shift_up(big % n) and b == P.shift_right(-big % n) and d == P.shift_up(-big % n)
                      and P.shift_right(big - 1).shift_right(1) == a):
            report("unary", [p], f"shift laws fail for amount {big}")
    sd, kd = P.sum_decomposition(), P.skew_decomposition()
    ctx.ev()
    ctx.count("laws.checked")
    if n:
        ok = (Perm().direct_sum(*sd) == P and Perm().skew_sum(*kd) == P and all(not c.is_sum_decomposable() and len(c) for c in sd)
              and all(not c.is_skew_decomposable() and len(c) for c in kd)
              and P.is_sum_decomposable() == (len(sd) > 1) and P.is_skew_decomposable() == (len(kd) > 1))
        if not ok:
            report("unary", [p], f"sum/skew decompositions do not re-assemble into indecomposable parts: {sd} / {kd}")
    P.block_decomposition()
    P.all_intervals()
    P.maximum_block()
    P.simple_location()
    P.is_simple()
    if n <= 7:
        P.is_strongly_simple()
    for w in (False, True):
        list(P.monotone_block_decomposition(w))
        list(P.monotone_block_decomposition_ascending(w))
        list(P.monotone_block_decomposition_descending(w))
    P.contract_inc_bonds(), P.contract_dec_bonds(), P.contract_bonds(), P.monotone_quotient()
    ch, cv = P.children(), P.coveredby()
    ctx.ev()
    ctx.count("laws.checked")
    if n <= 6 and not (all(P in c.coveredby() for c in ch) and all(P in q.children() for q in cv[:: max(1, len(cv) // 6)])):
        report("unary", [p], "children / coveredby are not dual")
    for al in ("cyclic_shift_right", "cyclic_shift_left", "decomposition", "maximal_interval", "sum_decomposable", "skew_decomposable",
               "shrink_by_one", "flip_horizontal", "flip_vertical", "flip_diagonal"):
        getattr(P, al)()
        ctx.count("aliases.called")
    list(P.all_monotone_intervals(True))
    ctx.ev()
    if [P(i) for i in range(n)] != list(p) or len(P) != n or bool(P) is not (n > 0) or P.apply(list(range(n))) != tuple(p) \
            or P.permute("abcdefghijklmnop"[:n]) != tuple("abcdefghijklmnop"[v] for v in p):
        report("unary", [p], "__call__ / len / bool / apply disagree with the one-line notation")
    inv = P.inverse()
    if inv.inverse() != P or P.compose(inv) != Perm.identity(n) or inv * P != Perm.identity(n):
        report("unary", [p], "inverse laws fail")
    # history / aliasing: a caller that empties a returned container must not change later answers, and operations
    # applied to objects that are themselves results behave like on fresh ones (all judged by the monitors)
    for name in ("children", "coveredby", "sum_decomposition", "skew_decomposition", "block_decomposition"):
        res = getattr(P, name)()
        res.clear()
        ctx.count("aliasing.mutated_results")
        getattr(P, name)()
    pats = P.block_decomposition_as_pattern()
    ctx.ev()
    ctx.count("blocks.as_patterns")
    want = {C.std(p[s:s + l]) for s, l in S.intervals(tuple(p))}
    if {tuple(q) for q in pats} != want or len(pats) != len(set(pats)) or not all(type(q) is Perm for q in pats):
        report("unary", [p], f"block_decomposition_as_pattern = {sorted(map(tuple, pats))}, the patterns of the proper intervals are {sorted(want)}")
    for blocks in (P.block_decomposition(),):
        for b in blocks:
            b.clear()
        P.block_decomposition(), P.maximum_block(), P.is_simple()
    D = P.inverse().inverse()
    D.sum_decomposition(), D.skew_decomposition(), D.is_simple(), D.children()
    if n:
        E = P.insert(0, 0).remove(0)
        E.block_decomposition(), E.is_sum_decomposable(), E.contract_bonds()


def chk_many_factors(ctx, p, count, depth):
    """composition / sums with very many arguments, asked for from deep inside a call stack as well: the result must be
    the left-to-right product whatever the number of factors (judged by the compose monitor and by the power law)"""
    P = Perm(p)
    n = len(P)

    def at_depth(d, fn):
        return fn() if d == 0 else at_depth(d - 1, fn)

    got = at_depth(depth, lambda: P.compose(*([P] * (count - 1))))
    ctx.ev()
    ctx.count("laws.many_factors")
    want = tuple(range(n))
    base, e = tuple(P), count
    while e:  # square-and-multiply on plain tuples
        if e & 1:
            want = tuple(want[base[i]] for i in range(n))
        base = tuple(base[base[i]] for i in range(n))
        e >>= 1
    if tuple(got) != want:
        report("many", [p, count, depth], f"compose of {count} equal factors at stack depth {depth} is {tuple(got)}, the power is {want}")
    parts = [Perm((0,))] * count
    ds = at_depth(depth, lambda: Perm().direct_sum(*parts))
    ks = at_depth(depth, lambda: Perm().skew_sum(*parts))
    if tuple(ds) != tuple(range(count)) or tuple(ks) != tuple(range(count - 1, -1, -1)):
        report("many", [p, count, depth], f"direct/skew sum of {count} points is not the identity / the reverse identity")


def chk_binary(ctx, p, q, r):
    P, Q, R = Perm(p), Perm(q), Perm(r)
    ctx.ev()
    ctx.count("laws.checked")
    ok = (P.direct_sum(Q).direct_sum(R) == P.direct_sum(Q.direct_sum(R)) == P.direct_sum(Q, R) and P + Q == P.direct_sum(Q)
          and P.skew_sum(Q).skew_sum(R) == P.skew_sum(Q.skew_sum(R)) == P.skew_sum(Q, R) and P - Q == P.skew_sum(Q)
          and P.direct_sum() == P and P.skew_sum() == P and P + Perm() == P and Perm() - P == P
          and P.direct_sum(Q).complement() == P.complement().skew_sum(Q.complement()))
    if not ok:
        report("binary", [p, q, r], "direct/skew sum laws fail")
    if len(P) == len(Q) == len(R):
        n = len(P)
        ok = (P.compose(Q).compose(R) == P.compose(Q.compose(R)) == P.compose(Q, R) and P * Q == P.compose(Q) and P.multiply(Q) == P * Q
              and P.compose(Perm.identity(n)) == P == Perm.identity(n).compose(P) and P.compose() == P
              and P.compose(Q).inverse() == Q.inverse().compose(P.inverse()))
        ctx.ev()
        if not ok:
            report("binary", [p, q, r], "composition laws fail")


def chk_inflate(ctx, p, comps):
    P = Perm(p)
    cs = [None if c is None else Perm(c) for c in comps]
    got = P.inflate(cs)
    got2 = P.inflate(iter(cs))
    ctx.ev()
    if any(c is None or len(c) == 0 for c in cs):
        ctx.count("inflate.with_empty_or_none")
    if got != got2:
        report("inflate", [p, comps], "inflate of a list and of an iterator differ")
    # law: inflating by singletons is the identity; inflating the identity of length 2 is the direct sum
    if P.inflate([Perm((0,))] * len(P)) != P:
        report("inflate", [p, comps], "inflation by singletons is not the identity")
    if len(cs) >= 2 and cs[0] is not None and cs[1] is not None:
        if Perm((0, 1)).inflate(cs[:2]) != cs[0] + cs[1] or Perm((1, 0)).inflate(cs[:2]) != cs[0] - cs[1]:
            report("inflate", [p, comps], "inflating 01 / 10 is not the direct / skew sum")


CHECKS = {"subclass": chk_subclass_receivers, "many": chk_many_factors, "op": chk_op, "unary": chk_unary, "binary": chk_binary, "inflate": chk_inflate}


def plan(tier, seed):
    nmax = 5 if tier == "quick" else 7
    specs = [{"name": f"unary-{n}-{i}", "kind": "unary", "n": n, "part": i, "parts": parts}
             for n in range(nmax + 1) for parts in [1 if n < 5 else (4 if n == 5 else (16 if n == 6 else 128))] for i in range(parts)]
    specs += [{"name": f"binary-{i}", "kind": "binary", "part": i, "parts": 4, "nmax": 4 if tier == "quick" else 5} for i in range(4)]
    specs += [{"name": f"rand-{i}", "kind": "rand", "count": (3000 if tier == "quick" else 40000) // 8} for i in range(8)]
    return specs


def run(ctx, spec):
    rng = ctx.rng
    if spec["kind"] == "unary":
        for i, p in enumerate(itertools.permutations(range(spec["n"]))):
            if i % spec["parts"] == spec["part"]:
                chk_unary(ctx, list(p))
        ctx.note(f"exhaustive: S_{spec['n']} part {spec['part']}/{spec['parts']} with all index/value/shift arguments")
    elif spec["kind"] == "binary":
        perms = [list(p) for n in range(spec["nmax"] + 1) for p in itertools.permutations(range(n))]
        i = 0
        for p in perms:
            for q in perms:
                i += 1
                if i % spec["parts"] != spec["part"]:
                    continue
                if len(p) == len(q):
                    r = rng.sample(range(len(p)), len(p))
                else:
                    r = rng.choice(perms[:10])
                chk_binary(ctx, p, q, r)
        ctx.note(f"exhaustive: all ordered pairs from S_0..S_{spec['nmax']} (third operand sampled)")
    else:
        for _ in range(spec["count"]):
            n = rng.randint(0, 5)
            p = rng.sample(range(n), n)
            comps = []
            for _ in range(n):
                c = rng.random()
                if c < 0.2:
                    comps.append(None)
                elif c < 0.35:
                    comps.append([])
                else:
                    k = rng.randint(1, 4)
                    comps.append(rng.sample(range(k), k))
            chk_inflate(ctx, p, comps)
            if rng.random() < 0.3:
                n = rng.randint(6, 12)
                chk_unary(ctx, rng.sample(range(n), n))
        for count, depth in ((300, 0), (1000, 0), (1500, 0), (400, 600), (2500, 100)):
            n = rng.randint(2, 6)
            chk_many_factors(ctx, rng.sample(range(n), n), count, depth)
        ctx.sample({"inflate": {"perm": p, "components": comps}})
