"""C01 Classical pattern occurrences, containment and counts are exact."""
import copy
import itertools
import pickle
import math

from permuta import MeshPatt, Perm
from permuta.patterns.patt import Patt

from .. import monitor
from ..conv import enc
from ..oracle import classical as C

ID = "C01"
RULE = (
    "Monitors on Perm.occurrences_in/occurrences_of/contains/avoids/avoids_set/__contains__/_contains/"
    "count_occurrences_of(+alias occurrences)/left_floor_and_ceiling and Patt.count_occurrences_in/contained_in/"
    "avoided_by compare every call with the definitional census (all index subsets, grouped by standardisation); "
    "the memoised search table is compared with its definition after every search. Workload: exhaustive "
    "(pattern, text) pairs, random long pairs with planted occurrences, colourings, multi-pattern calls and "
    "histories re-using one pattern object with interleaved partially consumed generators. "
    "Non-trivial = distinct (pattern, text[, colours]) with k>=2 and >=1 occurrence decided by the listing monitor."
)
ASSUMPTIONS = [
    "oracle: vf/oracle/classical.py (index subsets + order-isomorphism), independent of permuta",
    "oracle skipped (and counted) when C(n,k) > 2e5",
]
REQUIRED = [
    "calls.Perm.occurrences_in", "calls.Perm.contains", "calls.Perm.avoids", "calls.Perm.avoids_set",
    "calls.Perm.__contains__", "calls.Perm.count_occurrences_of", "calls.Patt.count_occurrences_in",
    "calls.Patt.contained_in", "calls.Patt.avoided_by", "calls.Perm.occurrences_of",
    "listing.exhausted", "listing.abandoned", "memo.checked", "memo.reused", "coloured.checked", "derived.objects", "long.patterns", "multi.same_object_mutated", "history.shared_pattern_object",
]
MIN_NONTRIVIAL = 200
WATCHDOG = {"quick": 1800, "thorough": 4 * 3600}
GUARD_COMB = 200000

CTX = None
MON = None
REACH = None
CASE = [None]  # current replayable case set by history workloads


def report(check, args, detail):
    if CASE[0] is not None:
        check, args = CASE[0]
    CTX.fail(check, args, detail)


def too_big(k, n):
    return k <= n and math.comb(n, k) > GUARD_COMB


def text_of(patt):
    return tuple(patt) if isinstance(patt, Perm) else tuple(patt.get_perm())


# ---- monitors ----------------------------------------------------------------------------
def check_memo(p):
    """State invariant: once set, the search table equals its definition."""
    tab = p._cached_pattern_details
    if tab is None or not C.is_perm(tuple(p)):
        return
    want = C.pattern_details(tuple(p))
    try:
        shape_ok = len(tab) == len(want) and all(len(row) == 4 for row in tab)
    except TypeError:
        shape_ok = False
    if not shape_ok:
        # a private table organised differently is not a violation of anything: the invariant applies to the layout it knows
        CTX.count("memo.other_layout_not_judged")
        return
    CTX.count("memo.checked")
    CTX.ev()
    if list(map(tuple, tab)) != want:
        report("pair", [enc(p), enc(p)], f"memoised search table of {tuple(p)} is {tab}, definition gives {want}")


def done_occurrences_in(args, kwargs, items, exhausted, exc):
    self, patt = args[0], args[1]
    if not isinstance(self, Perm) or not isinstance(patt, (Perm, MeshPatt)):
        return
    p, t = tuple(self), text_of(patt)
    if not (C.is_perm(p) and C.is_perm(t)):
        CTX.count("skipped_not_a_permutation")
        return
    if exc is not None:
        report("pair", [enc(self), list(t)], f"occurrences_in raised {exc!r}")
        return
    if too_big(len(p), len(t)):
        CTX.count("oracle_skipped")
        return
    coloured = len(args) >= 4 and args[2] is not None
    if coloured:
        want = C.occurrences(p, t, list(args[2]), list(args[3]))
        case = ("colour", [list(p), list(t), list(args[2]), list(args[3])])
        CTX.count("coloured.checked")
    else:
        want = C.occ_cached(p, t)
        case = ("pair", [list(p), list(t)])
    CTX.ev()
    items = [tuple(i) for i in items]
    if exhausted:
        CTX.count("listing.exhausted")
        ok = items == want
    else:
        CTX.count("listing.abandoned")
        ok = items == want[: len(items)]
    if not ok:
        report(case[0], case[1], f"occurrences of {p} in {t}{' (coloured)' if coloured else ''}: "
               f"got {items[:12]}{'' if exhausted else ' (prefix)'} want {want[:12]} (|got|={len(items)}, |want|={len(want)})")
    if want and len(p) >= 2:
        CTX.nt(("occ", p, t, tuple(args[2]) if coloured else None, tuple(args[3]) if coloured else None))
    if self._cached_pattern_details is not None:
        check_memo(self)
    CTX.rsample({"pattern": list(p), "text": list(t), "occurrences": len(want), "exhausted": exhausted}, 0.0005)


def done_occurrences_of(args, kwargs, items, exhausted, exc):
    self, patt = args[0], args[1]
    if not isinstance(patt, Perm) or exc is not None:
        return
    p, t = tuple(patt), tuple(self)
    if too_big(len(p), len(t)) or not (C.is_perm(p) and C.is_perm(t)):
        return
    want = C.occ_cached(p, t)
    CTX.ev()
    items = [tuple(i) for i in items]
    if not (items == want if exhausted else items == want[: len(items)]):
        report("pair", [list(p), list(t)], f"occurrences_of: got {items[:12]} want {want[:12]}")


def classical_only(patts):
    return all(isinstance(q, Perm) for q in patts)


def post_bool(label, expect_fn):
    def post(args, kwargs, res, exc):
        self = args[0]
        patts = expect_fn.patts(args)
        if patts is None:  # one-shot iterator argument: cannot be inspected without consuming it
            CTX.count("skipped_iterator_arg")
            return
        if not isinstance(self, Perm) or not classical_only(patts):
            CTX.count("skipped_nonclassical")
            return
        t = tuple(self)
        if any(too_big(len(q), len(t)) for q in patts):
            CTX.count("oracle_skipped")
            return
        if not (C.is_perm(t) and all(C.is_perm(tuple(q)) for q in patts)):
            CTX.count("skipped_not_a_permutation")
            return
        case = ("multi", [list(t), [list(q) for q in patts]])
        if exc is not None:
            report(case[0], case[1], f"{label} raised {exc!r}")
            return
        want = expect_fn(t, [tuple(q) for q in patts])
        CTX.ev()
        if res is not want:
            report(case[0], case[1], f"{label}: {t} vs {[tuple(q) for q in patts]} returned {res!r}, definition gives {want}")
    return post


class _Expect:
    def __init__(self, fn, patts):
        self.fn, self.patts = fn, patts

    def __call__(self, t, ps):
        return self.fn(t, ps)


E_CONTAINS = _Expect(lambda t, ps: all(bool(C.occ_cached(q, t)) for q in ps), lambda a: a[1:])
E_AVOIDS = _Expect(lambda t, ps: all(not C.occ_cached(q, t) for q in ps), lambda a: a[1:])
E_AVOIDS_SET = _Expect(lambda t, ps: all(not C.occ_cached(q, t) for q in ps), lambda a: tuple(a[1]) if isinstance(a[1], (list, tuple, set, frozenset)) else None)
E_IN = _Expect(lambda t, ps: all(bool(C.occ_cached(q, t)) for q in ps), lambda a: a[1:2])


def post_count(args, kwargs, res, exc):
    self, patt = args[0], args[1]
    if not (isinstance(self, Perm) and isinstance(patt, Perm)):
        return
    t, p = tuple(self), tuple(patt)
    if too_big(len(p), len(t)) or not (C.is_perm(p) and C.is_perm(t)):
        return
    CTX.ev()
    want = len(C.occ_cached(p, t))
    if exc is not None or res != want:
        report("pair", [list(p), list(t)], f"count_occurrences_of({p}) in {t} = {res!r} ({exc!r}), listing has {want}")


def post_count_in(args, kwargs, res, exc):
    self, patt = args[0], args[1]
    if not (isinstance(self, Perm) and isinstance(patt, Perm)):
        return
    p, t = tuple(self), tuple(patt)
    if too_big(len(p), len(t)) or not (C.is_perm(p) and C.is_perm(t)):
        return
    CTX.ev()
    want = len(C.occ_cached(p, t))
    if exc is not None or res != want:
        report("pair", [list(p), list(t)], f"count_occurrences_in: {p} in {t} = {res!r} ({exc!r}), listing has {want}")


def post_contained_in(args, kwargs, res, exc):
    self, others = args[0], args[1:]
    if not isinstance(self, Perm) or not classical_only(others):
        return
    p = tuple(self)
    if any(too_big(len(p), len(o)) for o in others) or not (C.is_perm(p) and all(C.is_perm(tuple(o)) for o in others)):
        return
    CTX.ev()
    want = all(bool(C.occ_cached(p, tuple(o))) for o in others)
    if exc is not None or res is not want:
        report("multi_in", [list(p), [list(o) for o in others]], f"contained_in: {p} in all of {[tuple(o) for o in others]} = {res!r} ({exc!r}), want {want}")


def post_avoided_by(args, kwargs, res, exc):
    self, others = args[0], args[1:]
    if not isinstance(self, Perm) or not classical_only(others):
        return
    p = tuple(self)
    if any(too_big(len(p), len(o)) for o in others) or not (C.is_perm(p) and all(C.is_perm(tuple(o)) for o in others)):
        return
    CTX.ev()
    want = all(not C.occ_cached(p, tuple(o)) for o in others)
    if exc is not None or res is not want:
        report("multi_in", [list(p), [list(o) for o in others]], f"avoided_by: {p} avoided by all of {[tuple(o) for o in others]} = {res!r} ({exc!r}), want {want}")


def done_lfc(args, kwargs, items, exhausted, exc):
    self = args[0]
    if not exhausted or len(set(self)) != len(self):
        return
    CTX.ev()
    want = C.left_floor_ceiling(tuple(self))
    if [tuple(i) for i in items] != want:
        report("pair", [enc(self), enc(self)], f"left_floor_and_ceiling({tuple(self)}) = {items} want {want}")


def setup(ctx):
    global CTX, MON, REACH
    CTX = ctx
    MON = m = monitor.Monitors(ctx)
    REACH = monitor.Reach()
    for name in ("occurrences_in", "_pattern_details", "left_floor_and_ceiling", "_contains", "contains", "avoids"):
        REACH.add("Perm." + name, Perm.__dict__[name])
    m.wrap_gen(Perm, "occurrences_in", done_occurrences_in)
    m.wrap_gen(Perm, "occurrences_of", done_occurrences_of)
    m.wrap_gen(Perm, "left_floor_and_ceiling", done_lfc)
    m.wrap(Perm, "contains", post_bool("contains", E_CONTAINS))
    m.wrap(Perm, "_contains", post_bool("_contains", E_IN))
    m.wrap(Perm, "avoids", post_bool("avoids", E_AVOIDS))
    m.wrap(Perm, "avoids_set", post_bool("avoids_set", E_AVOIDS_SET))
    m.wrap(Perm, "__contains__", post_bool("__contains__", E_IN))
    m.wrap(Perm, "count_occurrences_of", post_count, aliases=("occurrences",))
    m.wrap(Patt, "count_occurrences_in", post_count_in)
    m.wrap(Patt, "contained_in", post_contained_in)
    m.wrap(Patt, "avoided_by", post_avoided_by)
    REACH.start()


def teardown(ctx):
    REACH.stop()
    REACH.report(ctx)
    MON.uninstall()


# ---- replayable checks (drive the real API; monitors decide) -----------------------------
def chk_pair(ctx, p, t, full=True):
    P, T = Perm(p), Perm(t)
    _pair(P, T, full)


def _pair(P, T, full=True):
    was_set = P._cached_pattern_details is not None
    if was_set:
        CTX.count("memo.reused")
        if len(P) >= 2:
            CTX.nt(("reuse", tuple(P), tuple(T)))
    occ = list(P.occurrences_in(T))
    c1 = T.contains(P)
    a1 = T.avoids(P)
    n1 = T.count_occurrences_of(P)
    CTX.ev()
    if not (c1 is bool(occ) and a1 is (not occ) and n1 == len(occ)):
        report("pair", [list(P), list(T)], f"entry points disagree with listing: |occ|={len(occ)} contains={c1} avoids={a1} count={n1}")
    if full:
        res = (
            P in T, T.avoids_set([P]), T.occurrences(P), P.count_occurrences_in(T), P.contained_in(T),
            P.avoided_by(T), len(list(T.occurrences_of(P))), T.avoids_set({P}), T.avoids_set(iter((P,))),
        )
        CTX.ev()
        want = (bool(occ), not occ, len(occ), len(occ), bool(occ), not occ, len(occ), not occ, not occ)
        if res != want:
            report("pair", [list(P), list(T)], f"entry points disagree with listing: got {res} want {want}")


def chk_multi(ctx, t, ps):
    T, PS = Perm(t), [Perm(p) for p in ps]
    T.contains(*PS)
    T.avoids(*PS)
    T.avoids_set(PS)
    T.avoids_set(tuple(PS))
    T.avoids_set(set(PS))
    for Pp in PS[:2]:
        Pp in T


def chk_multi_mutated(ctx, t, ps, repl):
    """history: the SAME collection object is handed over again after the caller replaced some of its members
    (same length, same identity); every call is judged on the collection's content at the time of the call"""
    T, PS = Perm(t), [Perm(q) for q in ps]
    R = [Perm(q) for q in repl]
    lst, st = list(PS), set(PS)
    T.avoids_set(lst), T.avoids_set(st)
    for i, new in enumerate(R):
        if not lst:
            break
        j = (i * 7 + len(new)) % len(lst)
        old = lst[j]
        lst[j] = new
        T.avoids_set(lst)
        if old in st and new not in st:
            st.discard(old)
            st.add(new)
            T.avoids_set(st)
        T.avoids(*lst), T.contains(*lst)
    CTX.count("multi.same_object_mutated")


def chk_long(ctx, k, seed):
    """patterns of several hundred points (beyond every recursion-free shortcut threshold one could pick): the pattern in
    itself, and in itself with one extra point placed first, last, or anywhere (all occurrences end at / start at a boundary)"""
    import random

    rng = random.Random(seed)
    p = rand_perm(rng, k)
    P = Perm(p)
    _pair(P, Perm(p), full=True)
    for where in ("last", "first", "any"):
        pos = {"last": k, "first": 0, "any": rng.randint(0, k)}[where]
        val = rng.randint(0, k)
        t = [v + (v >= val) for v in p]
        t.insert(pos, val)
        _pair(P, Perm(t), full=where == "last")
        q = list(t)  # near miss: the text with two adjacent values exchanged somewhere
        i = rng.randrange(k)
        q[i], q[i + 1] = q[i + 1], q[i]
        _pair(P, Perm(q), full=False)
    CTX.count("long.patterns")


def chk_shared_pattern_object(ctx, p, t, first):
    """history across pattern kinds: the SAME Perm object is the underlying pattern of a mesh / vincular / bivincular pattern
    that is searched for first; the classical searches with that object afterwards are judged as always"""
    from permuta import BivincularPatt, CovincularPatt, MeshPatt, VincularPatt

    P, T = Perm(p), Perm(t)
    k = len(P)
    req = sorted(ctx.rng.sample(range(k + 1), ctx.rng.randint(1, min(2, k + 1))))
    W = {"vincular": lambda: VincularPatt(P, req), "covincular": lambda: CovincularPatt(P, req),
         "bivincular": lambda: BivincularPatt(P, req, req[:1]), "mesh": lambda: MeshPatt(P, [(x, 0) for x in req])}[first]()
    list(W.occurrences_in(T)), T.contains(W), W in T
    _pair(P, T, full=True)
    _pair(P, Perm(list(t) + [len(t)]), full=False)
    CTX.count("history.shared_pattern_object")


def chk_multi_in(ctx, p, ts):
    P, TS = Perm(p), [Perm(t) for t in ts]
    P.contained_in(*TS)
    P.avoided_by(*TS)


def chk_colour(ctx, p, t, pc, tc):
    P, T = Perm(p), Perm(t)
    got = list(P.occurrences_in(T, pc, tc))
    # metamorphic: coloured occurrences are a sub-listing of the uncoloured ones
    plain = list(P.occurrences_in(T))
    ctx.ev()
    if [o for o in plain if all(tc[i] == pc[j] for j, i in enumerate(o))] != got:
        report("colour", [p, t, pc, tc], "coloured listing is not the colour-matching sub-listing of the plain listing")


def chk_history(ctx, p, texts, schedule, fresh_every):
    """One pattern object, many texts, interleaved partially consumed generators."""
    CASE[0] = ("history", [p, texts, schedule, fresh_every])
    try:
        P = Perm(p)
        gens = {}
        for step, (kind, ti, amount) in enumerate(schedule):
            if fresh_every and step % fresh_every == fresh_every - 1:
                P2 = Perm.to_standard(p)  # shared memoised object: same table semantics
                _pair(P2, Perm(texts[ti]), full=False)
            T = Perm(texts[ti])
            if kind == "open":
                gens[step] = P.occurrences_in(T)
            elif kind == "advance" and gens:
                key = sorted(gens)[amount % len(gens)]
                for _ in range(1 + amount % 3):
                    if next(gens[key], None) is None:
                        del gens[key]
                        break
            elif kind == "drop" and gens:
                key = sorted(gens)[amount % len(gens)]
                gens.pop(key).close()
            elif kind == "throw" and gens:
                # the consumer raises INTO a half-consumed listing (generator protocol); later listings must be unaffected
                key = sorted(gens)[amount % len(gens)]
                try:
                    gens.pop(key).throw(KeyError("raised by the consumer"))
                except (KeyError, StopIteration):
                    pass
                CTX.count("listing.thrown_into")
            elif kind == "reenter" and gens:
                # re-entrancy: while a listing is half consumed, the same pattern object starts and finishes other searches
                _pair(P, T, full=False)
                _pair(P, Perm(texts[(ti + 1) % len(texts)]), full=False)
            elif kind == "full":
                _pair(P, T, full=(amount % 2 == 0))
        for g in gens.values():
            for _ in g:
                pass
        check_memo(P)
    finally:
        CASE[0] = None


class SubPerm(Perm):
    """a user-defined subclass without any change of behaviour"""


def chk_derived(ctx, p, t, how):
    """History: patterns and texts that are RESULTS of other API calls (shared memoised objects, symmetries,
    sub-permutations, unranked permutations) are searched with, after their parents have been used."""
    P0, T0 = Perm(p), Perm(t)
    _pair(P0, T0, full=False)
    makers = {
        "to_standard": lambda q: Perm.to_standard(list(q)),
        "inverse_twice": lambda q: q.inverse().inverse(),
        "rotate4": lambda q: q.rotate().rotate(3),
        "unrank": lambda q: Perm.unrank(q.rank()),
        "remove_insert": lambda q: q.insert(0, 0).remove(0) if len(q) else q,
        "from_string": lambda q: Perm.from_string(str(q)) if 0 < len(q) <= 10 else q,
        "compose_id": lambda q: q.compose(Perm.identity(len(q))),
        # copies of an object that has already been searched with (whatever it memoised travels or not - the answers must not change)
        "pickle": lambda q: pickle.loads(pickle.dumps(q)),
        "copy": copy.copy,
        "deepcopy": copy.deepcopy,
        "subclass": SubPerm,
    }
    make = makers[how]
    P1, T1 = make(P0), make(T0)
    ctx.count("derived.objects")
    if tuple(P1) != tuple(P0) or tuple(T1) != tuple(T0):
        return  # the maker itself is wrong: other properties judge that
    _pair(P1, T1, full=True)
    _pair(P1, T0, full=False)
    _pair(P0, T1, full=False)
    # objects of a DIFFERENT value derived from an already-used parent (whatever state the parent carried must not leak)
    for name in ("complement", "reverse", "inverse", "flip_antidiagonal", "reverse_complement", "stack_sort", "shift_up", "shift_right"):
        D = getattr(P0, name)()
        _pair(D, T0, full=False)
        _pair(D, T1, full=False)
        if len(D) <= 4:
            _pair(D, D.direct_sum(T0), full=False)
    for k in (1, 2, 3):
        _pair(P0.rotate(k), T0, full=False)
    _pair(P0, T0.complement(), full=False)
    # sub-permutations obtained through the API, used as patterns of their parent
    if len(T0) >= 2:
        S = T0.remove(ctx.rng.randrange(len(T0)))
        _pair(S, T0, full=False)
        _pair(S, T1, full=False)


DERIVED_HOW = ["to_standard", "inverse_twice", "rotate4", "unrank", "remove_insert", "from_string", "compose_id", "pickle", "copy", "deepcopy", "subclass"]

CHECKS = {"shared": chk_shared_pattern_object, "long": chk_long, "multi_mutated": chk_multi_mutated, "derived": chk_derived, "pair": chk_pair, "multi": chk_multi, "multi_in": chk_multi_in, "colour": chk_colour, "history": chk_history}


# ---- workload ----------------------------------------------------------------------------
def patterns_upto(k):
    return [p for j in range(k + 1) for p in itertools.permutations(range(j))]


def plan(tier, seed):
    specs = []
    if tier == "quick":
        ex = [(4, n) for n in range(0, 8)]
        nrand, nhist, ncol = 2400, 320, 800
    else:
        ex = [(5, n) for n in range(0, 9)] + [(4, 9), (6, 7)]
        nrand, nhist, ncol = 100000, 6000, 20000
    for k, n in ex:
        total = math.factorial(n)
        parts = 1 if total <= 720 else (8 if total <= 5040 else 32)
        if (k, n) == (6, 7):
            parts = 16
        for part in range(parts):
            specs.append({"name": f"exh-k{k}-n{n}-{part}", "kind": "exh", "k": k, "n": n, "part": part, "parts": parts})
    for i in range(16):
        specs.append({"name": f"rand-{i}", "kind": "rand", "pairs": nrand // 16, "hist": nhist // 16, "col": ncol // 16, "long": 1 if tier == "quick" else 6})
    return specs


def run(ctx, spec):
    if spec["kind"] == "exh":
        run_exh(ctx, spec)
    else:
        run_rand(ctx, spec)


def run_exh(ctx, spec):
    k, n = spec["k"], spec["n"]
    if (k, n) == (6, 7):
        pats = [Perm(p) for p in itertools.permutations(range(6))]
    elif (k, n) == (4, 9):
        pats = [Perm(p) for p in patterns_upto(4)]
    else:
        pats = [Perm(p) for p in patterns_upto(k)]
        # patterns longer than the text and k == n + 1 boundary
        pats = [p for p in pats if len(p) <= n + 1]
    full = n <= 6
    for i, t in enumerate(itertools.permutations(range(n))):
        if i % spec["parts"] != spec["part"]:
            continue
        T = Perm(t)
        for P in pats:
            _pair(P, T, full)
        if n >= 2 and i % 7 == 0:
            sub = ctx.rng.sample(pats, min(len(pats), 3))
            chk_multi(ctx, list(t), [list(q) for q in sub])
    ctx.count("exhaustive_blocks")
    ctx.note(f"exhaustive block done: all patterns k<={k} x texts n={n} part {spec['part']}/{spec['parts']}")


def rand_perm(rng, n):
    lst = list(range(n))
    rng.shuffle(lst)
    return lst


def planted(rng, k, n):
    """A text of length n with an occurrence of a random pattern planted, biased to the
    boundaries (occurrence ending at the last index, extreme values)."""
    p = rand_perm(rng, k)
    t = rand_perm(rng, n)
    mode = rng.randrange(4)
    if mode == 0 or k > n or k == 0:
        return p, t
    pos = set(rng.sample(range(n), k))
    if mode == 2 and (n - 1) not in pos:
        pos.pop()
        pos.add(n - 1)
    pos = sorted(pos)
    vals = sorted(t[i] for i in pos)
    for j, i in enumerate(pos):
        t[i] = vals[p[j]]
    if mode == 3 and n >= 2:  # near miss: swap two entries of the text
        i, j = rng.sample(range(n), 2)
        t[i], t[j] = t[j], t[i]
    return p, t


def run_rand(ctx, spec):
    rng = ctx.rng
    for _ in range(spec["pairs"]):
        k = rng.choice([0, 1, 2, 3, 3, 4, 4, 5, 5, 6, 7])
        n = rng.choice([0, 1, 2, 5, 8, 9, 10, 11, 12, 13, 14])
        p, t = planted(rng, k, n)
        chk_pair(ctx, p, t, full=rng.random() < 0.3)
        if rng.random() < 0.15:
            ps = [rand_perm(rng, rng.randint(1, 4)) for _ in range(rng.randint(0, 4))] + [p]
            rng.shuffle(ps)
            chk_multi(ctx, t, ps)
        if rng.random() < 0.1:
            ps = [rand_perm(rng, rng.randint(1, 4)) for _ in range(rng.randint(1, 4))]
            chk_multi_mutated(ctx, t, ps, [rand_perm(rng, rng.randint(1, 4)) for _ in range(rng.randint(1, 4))] + [p])
        if rng.random() < 0.1:
            ts = [t] + [rand_perm(rng, rng.randint(0, 8)) for _ in range(rng.randint(0, 3))]
            chk_multi_in(ctx, p, ts)
        if rng.random() < 0.25:
            chk_derived(ctx, p, t, rng.choice(DERIVED_HOW))
        if rng.random() < 0.2 and k >= 1:
            chk_shared_pattern_object(ctx, p, t, rng.choice(["vincular", "covincular", "bivincular", "mesh"]))
    for _ in range(spec.get("long", 0)):
        chk_long(ctx, rng.randint(500, 640), rng.randrange(10 ** 9))
    for _ in range(spec["col"]):
        k, n = rng.randint(1, 4), rng.randint(1, 9)
        p, t = planted(rng, k, n)
        ncol = rng.choice([1, 2, 2, 3])
        palette = rng.choice([[0, 1, 2], [None, 0, 1], ["a", None, "b"], [(), (0,), None], [False, None, 0.5],
                              [[0, 0], [0, 1], [1, 1]], [{"x": 1}, {"x": 2}, {}], [{1}, {2}, set()]])[: max(ncol, 2)]
        pc = [rng.choice(palette) for _ in range(k)]
        tc = [rng.choice(palette) for _ in range(n)]
        chk_colour(ctx, p, t, pc, tc)
    for _ in range(spec["hist"]):
        k = rng.randint(1, 5)
        p = rand_perm(rng, k)
        texts = []
        for _ in range(rng.randint(3, 12)):
            _, t = planted(rng, k, rng.randint(0, 10))
            texts.append(t)
        # re-plant p itself in half of them
        for t in texts[::2]:
            if len(t) >= k:
                pos = sorted(rng.sample(range(len(t)), k))
                vals = sorted(t[i] for i in pos)
                for j, i in enumerate(pos):
                    t[i] = vals[p[j]]
        schedule = [(rng.choice(["open", "open", "advance", "advance", "advance", "drop", "full", "full", "throw", "reenter"]),
                     rng.randrange(len(texts)), rng.randrange(100)) for _ in range(rng.randint(10, 60))]
        chk_history(ctx, p, texts, schedule, rng.choice([0, 3, 5]))
        ctx.count("histories")
    ctx.sample({"kind": "history", "pattern": p, "texts": texts[:3], "schedule": schedule[:6]})
