"""C09 Generation, ranking and notations are bijective and mutually consistent."""
import itertools
import math
import random

from permuta import MeshPatt, Perm

from .. import monitor
from ..conv import enc
from ..oracle import classical as C

ID = "C09"
RULE = (
    "Monitors on Perm.of_length/up_to_length/first (generator proxies), unrank, rank, to_standard (+aliases), "
    "from_string, from_integer, one_based (+aliases), from_iterable_validated and MeshPatt.unrank/rank/of_length decide "
    "every call: listings against itertools.permutations order, rank = index in the (length, lex) listing, "
    "standardisation = stable ranking of any comparable sequence, notations by round trip, mesh rank = sum 2^(x(k+1)+y). "
    "Workload: exhaustive lengths, every rank/count, huge random ranks, heterogeneous standardisation inputs, interleaved consumption of several live generators, a "
    ">10000-key history through the memoised standardisation (eviction) with results compared before/after, and "
    "immutability of shared memoised results. Non-trivial = distinct permutations ranked/unranked + distinct "
    "standardisation inputs with repeated values."
)
ASSUMPTIONS = ["from_string/str round trip only for length <= 10; from_integer only where an integer can spell the permutation (see DESIGN §3)"]
REQUIRED = ["calls.Perm.of_length", "calls.Perm.up_to_length", "calls.Perm.first", "calls.Perm.unrank", "calls.Perm.rank",
            "calls.Perm.to_standard", "calls.Perm.from_string", "calls.Perm.from_integer", "calls.Perm.one_based",
            "calls.Perm.from_iterable_validated", "calls.MeshPatt.unrank", "calls.MeshPatt.rank", "calls.MeshPatt.of_length", "meshlist.lazy_prefixes", "std.mixed_types",
            "lru.evictions_forced", "std.hash_colliding_keys", "interleaved.rounds", "unrank.block_boundaries", "std.with_ties", "validated.rejected", "unrank.domain_rejected"]
MIN_NONTRIVIAL = 1000
CTX = None
MON = None


def report(check, args, detail):
    CTX.fail(check, args, detail)


def total_before(n):
    return sum(math.factorial(i) for i in range(n))


def oracle_rank(p):
    """index in the concatenated (length, lexicographic) listing"""
    n = len(p)
    rest = list(range(n))
    r = 0
    for i, v in enumerate(p):
        r += rest.index(v) * math.factorial(n - 1 - i)
        rest.remove(v)
    return total_before(n) + r


def oracle_unrank_in_length(r, n):
    rest = list(range(n))
    out = []
    for i in range(n):
        f = math.factorial(n - 1 - i)
        out.append(rest.pop(r // f))
        r %= f
    return tuple(out)


def oracle_unrank(r):
    n = 0
    while r >= math.factorial(n):
        r -= math.factorial(n)
        n += 1
    return oracle_unrank_in_length(r, n)


def done_listing(kind):
    def done(args, kwargs, items, exhausted, exc):
        arg = args[1]
        if not isinstance(arg, int) or arg < 0:
            return
        if (kind == "of_length" and arg > 9) or (kind == "up_to_length" and arg > 8) or (kind == "first" and arg > 120000):
            CTX.count("oracle_skipped")
            return
        CTX.ev()
        if kind == "of_length":
            want = itertools.permutations(range(arg))
        elif kind == "up_to_length":
            want = (t for n in range(arg + 1) for t in itertools.permutations(range(n)))
        else:
            want = itertools.islice((t for n in itertools.count() for t in itertools.permutations(range(n))), arg)
        got = [tuple(p) for p in items]
        want = list(itertools.islice(want, len(got) + (1 if exhausted else 0)))
        bad = exc is not None or got != want[: len(got)] or (exhausted and len(want) != len(got)) or not all(type(p) is Perm for p in items)
        if bad:
            i = next((i for i, (a, b) in enumerate(zip(got, want)) if a != b), min(len(got), len(want)))
            report("listing", [kind, arg], f"Perm.{kind}({arg}) differs from the (length, lex) listing at position {i} "
                   f"(yielded {len(got)}, exhausted={exhausted}, exc={exc!r}): {got[i:i+2]} vs {want[i:i+2]}")
    return done


def post_unrank(args, kwargs, res, exc):
    r = args[1] if len(args) > 1 else kwargs.get("number")
    n = args[2] if len(args) > 2 else kwargs.get("length")
    if not isinstance(r, int) or r < 0 or (n is not None and (not isinstance(n, int) or n < 0)):
        return
    CTX.ev()
    if n is None:
        want = oracle_unrank(r)
    elif r < math.factorial(n):
        want = oracle_unrank_in_length(r, n)
    else:
        CTX.count("unrank.domain_rejected")
        if exc is None:
            report("unrank", [r, n], f"Perm.unrank({r}, {n}) = {res!r}: rank outside 0..{n}!-1 accepted")
        return
    if exc is not None or type(res) is not Perm or tuple(res) != want:
        report("unrank", [r, n], f"Perm.unrank({r}, {n}) = {res!r} ({exc!r}), want {want}")
    else:
        CTX.nt(("unrank", want))


def post_rank(args, kwargs, res, exc):
    p = tuple(args[0])
    if not C.is_perm(p):
        return
    CTX.ev()
    want = oracle_rank(p)
    if exc is not None or res != want:
        report("rank", [list(p)], f"Perm{p}.rank() = {res!r} ({exc!r}), want {want}")
    else:
        CTX.nt(("rank", p))


def post_std(args, kwargs, res, exc):
    it = args[1]
    if not isinstance(it, (list, tuple, str, range)):
        return
    seq = list(it)
    CTX.ev()
    try:
        want = C.std(seq)
    except TypeError:
        return  # not mutually comparable: outside the domain
    if exc is not None or type(res) is not Perm or tuple(res) != want:
        report("std", [enc_seq(seq)], f"to_standard({seq!r}) = {res!r} ({exc!r}), want {want}")
    if len(set(map(repr, seq))) < len(seq):
        CTX.count("std.with_ties")
        CTX.nt(("std", repr(seq)))


def enc_seq(seq):
    return [v if isinstance(v, (int, float, str)) else repr(v) for v in seq]


def post_from_string(args, kwargs, res, exc):
    s = args[1]
    CTX.ev()
    want = () if s == "ε" else tuple(int(ch) for ch in s) if isinstance(s, str) and s.isdigit() or s == "" else None
    if want is None:
        return
    if exc is not None or tuple(res) != want:
        report("notation", [list(want)], f"from_string({s!r}) = {res!r} ({exc!r})")


def post_from_integer(args, kwargs, res, exc):
    v = args[1]
    if not isinstance(v, int) or not 0 <= v <= 9876543210:
        return
    CTX.ev()
    want = (0,) if v == 0 else C.std([int(ch) for ch in str(v)])
    if exc is not None or tuple(res) != want:
        report("notation", [list(want)], f"from_integer({v}) = {res!r} ({exc!r}), want {want}")


def post_one_based(args, kwargs, res, exc):
    it = args[1]
    if not isinstance(it, (list, tuple)):
        return
    CTX.ev()
    if exc is not None or tuple(res) != tuple(v - 1 for v in it):
        report("notation", [[v - 1 for v in it]], f"one_based({it!r}) = {res!r} ({exc!r})")


def post_validated(args, kwargs, res, exc):
    it = args[1]
    if not isinstance(it, (list, tuple, str)):
        return
    CTX.ev()
    try:
        vals = [int(ch) for ch in it] if isinstance(it, str) else list(it)
    except ValueError:
        return
    ints = all(isinstance(v, int) and not isinstance(v, bool) or isinstance(v, bool) for v in vals)
    valid = ints and sorted(vals) == list(range(len(vals)))
    if valid:
        if exc is not None or tuple(res) != tuple(vals):
            report("validated", [enc_seq(vals)], f"from_iterable_validated({it!r}) = {res!r} ({exc!r}) for a valid permutation")
    else:
        CTX.count("validated.rejected")
        if exc is None:
            report("validated", [enc_seq(vals)], f"from_iterable_validated({it!r}) accepted a non-permutation: {res!r}")
        elif not isinstance(exc, (ValueError, TypeError)):
            report("validated", [enc_seq(vals)], f"from_iterable_validated({it!r}) raised {exc!r} instead of ValueError/TypeError")


def post_mesh_unrank(args, kwargs, res, exc):
    p, r = args[1], args[2]
    if not isinstance(p, Perm) or not isinstance(r, int):
        return
    k = len(p)
    CTX.ev()
    if not 0 <= r < 2 ** ((k + 1) ** 2):
        if exc is None:
            report("meshrank", [list(p), r], f"MeshPatt.unrank accepted rank {r} outside the domain")
        return
    want = frozenset((x, y) for x in range(k + 1) for y in range(k + 1) if r >> (x * (k + 1) + y) & 1)
    if exc is not None or frozenset(res.shading) != want or tuple(res.pattern) != tuple(p):
        report("meshrank", [list(p), r], f"MeshPatt.unrank({tuple(p)}, {r}) = {res!r} ({exc!r}), want shading {sorted(want)}")


def post_mesh_rank(args, kwargs, res, exc):
    m = args[0]
    k = len(m.pattern)
    CTX.ev()
    want = sum(1 << (x * (k + 1) + y) for (x, y) in m.shading)
    if exc is not None or res != want:
        report("meshrank", [list(m.pattern), want], f"{m!r}.rank() = {res!r} ({exc!r}), want {want}")


def done_mesh_of_length(args, kwargs, items, exhausted, exc):
    k = args[1]
    patt = args[2] if len(args) > 2 else kwargs.get("patt")
    if exc is not None:
        CTX.ev()
        report("meshlist", [k, list(patt) if patt is not None else None], f"MeshPatt.of_length({k}, {patt}) raised {exc!r} after {len(items)} patterns")
        return
    if not exhausted or k > 2:
        # a listing consumed lazily (abandoned after some items): what was yielded so far must be distinct shadings of admissible patterns
        CTX.ev()
        CTX.count("meshlist.lazy_prefixes")
        got = [(tuple(m.pattern), frozenset(m.shading)) for m in items]
        ok = len(set(got)) == len(got) and all(len(g[0]) == k and C.is_perm(g[0]) and (patt is None or g[0] == tuple(patt))
                                                and all(0 <= x <= k and 0 <= y <= k for x, y in g[1]) for g in got)
        if not ok:
            report("meshlist", [k, list(patt) if patt is not None else None], f"the first {len(got)} items of MeshPatt.of_length({k}, {patt}) repeat or are not shadings of the pattern")
        return
    CTX.ev()
    got = [(tuple(m.pattern), frozenset(m.shading)) for m in items]
    perms = [tuple(patt)] if patt is not None else list(itertools.permutations(range(k)))
    want_n = len(perms) * 2 ** ((k + 1) ** 2)
    if len(got) != want_n or len(set(got)) != want_n or {g[0] for g in got} != set(perms):
        report("meshlist", [k, list(patt) if patt is not None else None], f"MeshPatt.of_length({k}, {patt}) yields {len(got)} ({len(set(got))} distinct), want {want_n}")


def setup(ctx):
    global CTX, MON
    CTX = ctx
    MON = m = monitor.Monitors(ctx)
    m.wrap_gen(Perm, "of_length", done_listing("of_length"))
    m.wrap_gen(Perm, "up_to_length", done_listing("up_to_length"))
    m.wrap_gen(Perm, "first", done_listing("first"))
    m.wrap(Perm, "unrank", post_unrank, aliases=("ind2perm",))
    m.wrap(Perm, "rank", post_rank, aliases=("perm2ind",))
    m.wrap(Perm, "to_standard", post_std, aliases=("standardize", "from_iterable"))
    m.wrap(Perm, "from_string", post_from_string)
    m.wrap(Perm, "from_integer", post_from_integer)
    m.wrap(Perm, "one_based", post_one_based, aliases=("one", "proper", "scientific"))
    m.wrap(Perm, "from_iterable_validated", post_validated)
    m.wrap(MeshPatt, "unrank", post_mesh_unrank)
    m.wrap(MeshPatt, "rank", post_mesh_rank)
    m.wrap_gen(MeshPatt, "of_length", done_mesh_of_length)


def teardown(ctx):
    MON.uninstall()


# ---- replayable checks -------------------------------------------------------------------------------------------
def chk_listing(ctx, kind, arg):
    gen = getattr(Perm, kind)(arg)
    items = list(gen)
    # abandon another one early (prefix check in the monitor)
    g2 = getattr(Perm, kind)(arg)
    for _ in range(min(3, len(items))):
        next(g2)
    g2.close()


def chk_rank(ctx, p):
    P = Perm(p)
    r = P.rank()
    n = len(P)
    back = Perm.unrank(r)
    back2 = Perm.unrank(r - total_before(n), n)
    ctx.ev()
    if not (back == P and back2 == P and Perm.ind2perm(P.perm2ind()) == P):
        report("rank", [p], f"rank/unrank round trip fails: rank={r} unrank={back!r} unrank(.,n)={back2!r}")
    if r > 0:
        prev = Perm.unrank(r - 1)
        ctx.ev()
        if not (prev < P and not P < prev and prev.rank() == r - 1):
            report("rank", [p], f"unrank({r - 1}) = {prev!r} is not < unrank({r}) = {P!r}")
    chk_notation(ctx, p)


def chk_unrank(ctx, r, n):
    try:
        P = Perm.unrank(r) if n is None else Perm.unrank(r, n)
    except AssertionError:
        return
    ctx.ev()
    if n is None and P.rank() != r:
        report("unrank", [r, n], f"rank(unrank({r})) = {P.rank()}")
    if n is not None and P.rank() - total_before(n) != r:
        report("unrank", [r, n], f"rank(unrank({r}, {n})) - offset = {P.rank() - total_before(n)}")


def chk_notation(ctx, p):
    P = Perm(p)
    n = len(P)
    ctx.ev()
    ok = True
    if n <= 10:
        try:
            ok &= Perm.from_string(str(P)) == P and (n == 0 or Perm.from_iterable_validated(str(P)) == P)
        except (ValueError, TypeError) as exc:
            report("notation", [p], f"str() of {P!r} is {str(P)!r}, which from_string / from_iterable_validated reject: {exc!r}")
    else:
        ok &= str(P) == "".join(f"({v})" for v in P)
    ok &= eval(repr(P), {"Perm": Perm}) == P and type(eval(repr(P), {"Perm": Perm})) is Perm
    ok &= Perm.one_based([v + 1 for v in P]) == P and Perm.one(tuple(v + 1 for v in P)) == P and Perm.proper([v + 1 for v in P]) == P
    ok &= Perm.from_iterable_validated(list(P)) == P and Perm.to_standard(list(P)) == P and Perm.standardize(tuple(P)) == P
    ok &= Perm.from_iterable(iter(list(P))) == P and Perm.scientific([v + 1 for v in P]) == P and Perm.ind2perm(P.perm2ind()) == P
    ok &= Perm.identity(n) == Perm.monotone_increasing(n) == Perm(range(n)) and Perm.monotone_decreasing(n) == Perm(range(n - 1, -1, -1))
    if 1 <= n <= 9:
        ok &= Perm.from_integer(int("".join(str(v + 1) for v in P))) == P
        if P[0] != 0:
            ok &= Perm.from_integer(int("".join(str(v) for v in P))) == P
    if not ok:
        report("notation", [p], f"a notation does not round-trip for {P!r}")


def chk_std(ctx, seq):
    for form in (list(seq), tuple(seq), iter(list(seq)), (v for v in seq)):
        got = Perm.to_standard(form)
        ctx.ev()
        if tuple(got) != C.std(list(seq)):
            report("std", [enc_seq(seq)], f"to_standard of a {type(form).__name__} gives {got!r}")
    if all(isinstance(v, str) and len(v) == 1 for v in seq):
        got = Perm.to_standard("".join(seq))  # a string is a sequence of characters, compared as characters
        ctx.ev()
        if tuple(got) != C.std(list(seq)):
            report("std", [enc_seq(seq)], f"to_standard of the string {''.join(seq)!r} gives {got!r}, characters in order give {C.std(list(seq))}")


def chk_validated(ctx, vals):
    try:
        Perm.from_iterable_validated(list(vals))
    except (ValueError, TypeError):
        pass
    if all(isinstance(v, int) and 0 <= v <= 9 for v in vals):
        try:
            Perm.from_iterable_validated("".join(map(str, vals)))
        except (ValueError, TypeError):
            pass


def chk_meshrank(ctx, p, r):
    P = Perm(p)
    k = len(P)
    try:
        m = MeshPatt.unrank(P, r)
    except AssertionError:
        return
    ctx.ev()
    if m.rank() != r or MeshPatt.unrank(P, m.rank()) != m:
        report("meshrank", [p, r], f"mesh rank/unrank round trip fails at {r}")


def chk_meshlist(ctx, k, patt):
    list(MeshPatt.of_length(k) if patt is None else MeshPatt.of_length(k, Perm(patt)))


def chk_meshlist_lazy(ctx, k, patt, take):
    """the enumeration is a generator: taking only the first few shadings of a long pattern must work and cost little"""
    it = MeshPatt.of_length(k) if patt is None else MeshPatt.of_length(k, Perm(patt))
    first = list(itertools.islice(it, take))
    ctx.ev()
    if len(first) != take:
        report("meshlist", [k, patt], f"only {len(first)} of the first {take} shadings could be taken from MeshPatt.of_length({k}, {patt})")
    del it


def chk_std_mixed(ctx, p, shift, where, kind):
    """a translate of a permutation with ONE interior entry replaced by a non-integer that keeps its rank (int extremes, distinct
    values, range == length - 1): the standardisation is still the permutation"""
    import decimal
    import fractions

    seq = [v + shift for v in p]
    inner = [i for i, v in enumerate(p) if 0 < v < len(p) - 1]
    if not inner:
        return
    i = inner[where % len(inner)]
    delta = {"float": 0.5, "neg_float": -0.25, "fraction": fractions.Fraction(1, 3), "decimal": decimal.Decimal("0.5")}[kind]
    seq[i] = seq[i] + delta
    chk_std(ctx, seq)
    ctx.count("std.mixed_types")


def chk_lru(ctx, seed, nkeys):
    """History through the memoised standardisation: force eviction, compare before/after."""
    rng = random.Random(seed)
    probes = []
    for _ in range(200):
        n = rng.randint(0, 7)
        seq = tuple(rng.choice([rng.randint(0, 4), rng.random(), rng.randint(-3, 3) * 1.0]) for _ in range(n))
        first = Perm.to_standard(seq)
        probes.append((seq, first, tuple(first), hash(first)))
        # use the shared result as a search pattern (this sets its private memo table)
        list(first.occurrences_in(Perm.to_standard(seq + seq)))
    for i in range(nkeys):
        Perm.to_standard((i, -i, i % 7, 3))
    try:
        info = Perm._to_standard.__func__.cache_info() if hasattr(Perm._to_standard, "__func__") else Perm._to_standard.cache_info()
        if info.currsize >= info.maxsize:
            ctx.count("lru.evictions_forced")
    except AttributeError:  # memoised some other way: the history below applies all the same
        ctx.count("lru.evictions_forced")
    # keys that differ but hash alike (hash(-1) == hash(-2), hash(2**61 - 1) == hash(0)) standardised one after the other
    for a, b in ((-1, -2), (-1.0, -2), (2 ** 61 - 1, 0), (2 ** 61, 1), (-2, -1.0)):
        for n in (2, 3, 4):
            for _ in range(6):
                base = [rng.choice([a, b, 5, -7]) for _ in range(n)]
                swapped = [b if v == a else a if v == b else v for v in base]
                for seq in (base, swapped, base):
                    got = Perm.to_standard(tuple(seq))
                    ctx.ev()
                    if tuple(got) != C.std(seq):
                        report("lru", [seed, nkeys], f"to_standard({tuple(seq)}) = {tuple(got)} after a different key with the same hash was standardised, want {C.std(seq)}")
    ctx.count("std.hash_colliding_keys")
    for seq, first, val, h in probes:
        again = Perm.to_standard(seq)
        ctx.ev()
        if tuple(again) != val or tuple(first) != val or hash(first) != h or hash(again) != h or tuple(again) != C.std(list(seq)):
            report("lru", [seed, nkeys], f"memoised standardisation of {seq} changed across eviction: {val} -> {tuple(again)}")
    # equal keys of different element types share one entry and must still be right
    for seq in [(1, 2.0, 0), (1.0, 2, False), (True, 2, 0.0)]:
        ctx.ev()
        if tuple(Perm.to_standard(seq)) != C.std(list(seq)):
            report("lru", [seed, nkeys], f"to_standard({seq}) wrong after equal-key lookups")


def chk_interleaved(ctx, seed, rounds):
    """History: several generator objects alive at once and advanced in a random interleaving (nested loops, zip, ...);
    every listing is judged by the generator monitors at exhaustion / abandonment, then fresh listings are taken."""
    rng = random.Random(seed)
    # two (three) live iterators crossing each length for the first time in this process, in lock step and staggered
    for n in (3, 10, 40, 200, 900, 6000):
        list(zip(Perm.first(n), Perm.first(n)))
        a, b = iter(Perm.first(n)), iter(Perm.first(n + 7))
        next(a, None)
        for _x, _y in zip(a, b):
            pass
        list(b)
    for n in range(7):
        list(zip(Perm.of_length(n), Perm.of_length(n), Perm.up_to_length(n)))
    for _ in range(rounds):
        live = []
        for _ in range(rng.randint(2, 4)):
            kind = rng.choice(["first", "first", "of_length", "up_to_length"])
            arg = rng.choice([5, 12, 30, 40, 130, 900]) if kind == "first" else rng.randint(0, 5)
            live.append(iter(getattr(Perm, kind)(arg)))
        while live:
            it = rng.choice(live)
            for _ in range(rng.randint(1, 7)):
                if next(it, None) is None:
                    live.remove(it)
                    break
            if live and rng.random() < 0.03:
                live.pop(rng.randrange(len(live))).close()
        ctx.count("interleaved.rounds")
        list(Perm.first(rng.choice([5, 41, 200])))
        list(Perm.of_length(rng.randint(0, 5)))
        list(zip(Perm.first(40), Perm.first(40)))
        a = [tuple(p) for p in Perm.first(35)]
        ctx.ev()
        if [Perm(t).rank() for t in a] != list(range(35)):
            report("interleaved", [seed, rounds], "Perm.first(35) no longer lists ranks 0..34 after interleaved iteration")


CHECKS = {"interleaved": chk_interleaved, "listing": chk_listing, "rank": chk_rank, "unrank": chk_unrank, "notation": chk_notation, "std": chk_std,
          "validated": chk_validated, "meshrank": chk_meshrank, "meshlist": chk_meshlist, "lru": chk_lru, "meshlist_lazy": chk_meshlist_lazy, "std_mixed": chk_std_mixed}


# ---- workload --------------------------------------------------------------------------------------------------------
def plan(tier, seed):
    nmax = 7 if tier == "quick" else 9
    specs = [{"name": f"rank-{n}-{i}", "kind": "rank", "n": n, "part": i, "parts": parts}
             for n in range(nmax + 1) for parts in [1 if n < 7 else (8 if n == 7 else (32 if n == 8 else 160))] for i in range(parts)]
    specs.append({"name": "listings", "kind": "listings", "nmax": nmax})
    specs.append({"name": "mesh", "kind": "mesh", "rand": 2000 if tier == "quick" else 100000})
    specs += [{"name": f"rand-{i}", "kind": "rand", "count": (3000 if tier == "quick" else 60000) // 8} for i in range(8)]
    specs.append({"name": "lru", "kind": "lru", "keys": 12000 if tier == "quick" else 40000})
    specs.append({"name": "interleaved", "kind": "interleaved", "rounds": 60 if tier == "quick" else 1500})
    return specs


def run(ctx, spec):
    rng = ctx.rng
    kind = spec["kind"]
    if kind == "rank":
        n = spec["n"]
        for i, p in enumerate(itertools.permutations(range(n))):
            if i % spec["parts"] == spec["part"]:
                chk_rank(ctx, list(p))
        if spec["part"] == 0:
            Perm.from_integer(0)  # documented special case: the integer 0 spells the permutation "0"
            Perm.from_integer(n)
            f = math.factorial(n)
            for r in [0, 1, f - 1, f, f + 1, -1 + f // 2]:
                if r >= 0:
                    chk_unrank(ctx, r, n)
            for r in range(min(f, 200)):
                chk_unrank(ctx, r, n)
        ctx.note(f"exhaustive: rank/unrank/notations for S_{n} part {spec['part']}/{spec['parts']}")
    elif kind == "listings":
        for n in range(spec["nmax"] + 1):
            chk_listing(ctx, "of_length", n)
            chk_listing(ctx, "up_to_length", n)
        for c in list(range(0, 160)) + [719, 720, 721, 873, 874, 875, 5913, 5914, 5915]:
            chk_listing(ctx, "first", c)
        ctx.note("exhaustive: of_length/up_to_length for every n, first(c) for every c < 160 and around the level boundaries")
    elif kind == "mesh":
        for k in range(3):
            chk_meshlist(ctx, k, None)
            for p in itertools.permutations(range(k)):
                chk_meshlist(ctx, k, list(p))
                for r in range(2 ** ((k + 1) ** 2)):
                    chk_meshrank(ctx, list(p), r)
                chk_meshrank(ctx, list(p), 2 ** ((k + 1) ** 2))
        ctx.note("exhaustive: mesh unrank/rank/of_length for length <= 2 (each shading exactly once)")
        for _ in range(spec["rand"]):
            k = rng.randint(3, 5)
            chk_meshrank(ctx, rng.sample(range(k), k), rng.randrange(2 ** ((k + 1) ** 2)))
        for k in (3, 4, 5, 6, 7, 8, 10):
            chk_meshlist_lazy(ctx, k, rng.sample(range(k), k), rng.choice([1, 25, 300]))
        chk_meshlist_lazy(ctx, 3, None, 40)
        chk_meshlist_lazy(ctx, 4, None, 5)
    elif kind == "rand":
        for _ in range(spec["count"]):
            c = rng.random()
            if c < 0.25:
                n = rng.randint(9, 20)
                chk_rank(ctx, rng.sample(range(n), n))
                if rng.random() < 0.02:
                    n = rng.choice([255, 256, 257, 258, 300])  # around CPython's small-int cache and far beyond enumeration
                    q = list(range(n))
                    i, j = rng.sample(range(n), 2)
                    q[i], q[j] = q[j], q[i]
                    chk_rank(ctx, q)
                    ctx.count("rank.long_perms")
            elif c < 0.4:
                n = rng.randint(0, 20)
                chk_unrank(ctx, rng.randrange(math.factorial(n)), n)
                chk_unrank(ctx, rng.randrange(total_before(n + 1) + 1), None)
                # block boundaries: ranks k*m! - 1, k*m!, k*m! + 1 (last / first permutation with a given prefix)
                n = rng.randint(10, 26)
                m = rng.randint(1, n - 1)
                k = rng.randint(1, math.factorial(n) // math.factorial(m))
                for r in (k * math.factorial(m) - 1, k * math.factorial(m), k * math.factorial(m) + 1, math.factorial(n) - 1):
                    if 0 <= r < math.factorial(n):
                        chk_unrank(ctx, r, n)
                        chk_unrank(ctx, total_before(n) + r, None)
                        chk_rank(ctx, list(oracle_unrank_in_length(r, n)))
                ctx.count("unrank.block_boundaries")
            elif c < 0.8:
                n = rng.randint(0, 9)
                pool = rng.choice([
                    lambda: rng.randint(0, 3), lambda: rng.choice("abca"), lambda: rng.random(), lambda: rng.randint(-5, 5) / 2,
                    lambda: (rng.randint(0, 2), rng.randint(0, 2)), lambda: rng.choice([0, 1, True, False, 1.0]),
                    # characters: ASCII digits, digits of other scripts (some int() understands, some it does not), letters
                    lambda: rng.choice("0123456789"), lambda: rng.choice("90\u0660\u0669\u0967\uff11"), lambda: rng.choice("21\u00b2\u00b3\u2461\u2460"),
                    lambda: rng.choice("9a\u0660 Z\u00e9"),
                ])
                chk_std(ctx, [pool() for _ in range(n)])
                if n >= 3:
                    chk_std_mixed(ctx, rng.sample(range(n), n), rng.randint(-3, 3), rng.randrange(10), rng.choice(["float", "neg_float", "fraction", "decimal"]))
            else:
                n = rng.randint(0, 7)
                vals = rng.sample(range(n), n)
                mode = rng.randrange(5)
                if mode == 1 and n:
                    vals[rng.randrange(n)] = n
                elif mode == 2 and n >= 2:
                    vals[0] = vals[1]
                elif mode == 3 and n:
                    vals[rng.randrange(n)] = -1
                elif mode == 4 and n:
                    vals = vals[:-1] + [None] if rng.random() < 0.5 else vals[:-1] + [1.5]
                chk_validated(ctx, vals)
        ctx.sample({"kind": "random rank/std/validated inputs", "last": enc_seq(vals) if "vals" in dir() else None})
    elif kind == "interleaved":
        chk_interleaved(ctx, ctx.seed, spec["rounds"])
        ctx.sample({"interleaved_generator_rounds": spec["rounds"]})
    elif kind == "lru":
        chk_lru(ctx, ctx.seed, spec["keys"])
        chk_lru(ctx, ctx.seed + 1, spec["keys"])
        ctx.sample({"lru_history_keys": spec["keys"]})
