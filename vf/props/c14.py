"""C14 Pin words decode to their pin permutations and reflect pattern containment."""
import functools
import itertools

from permuta import Perm
from permuta.permutils.pin_words import PinWords
from permuta.permutils.pinword_util import PinWordUtil

from .. import monitor
from ..oracle import classical as C
from ..oracle import pins as P
from ..oracle import sorting as SO

ID = "C14"
RULE = (
    "Recorders on PinWords.pinword_to_perm, sp_to_m, m_to_sp, quadrant, factor_pinword, is_strict_pinword, "
    "pinword_occurrences_sp, pinwords_of_length and the three mapping tables, plus a hook on PinWordUtil.call that checks "
    "the geometric predicates on the implementation's own coordinates for every pin as it is placed (distinct coordinates, "
    "independence for numerals, separation for directions). Oracle: own exact-rational placement written from the property "
    "text. Containment: for every pin word w and permutation sigma: sigma <= perm(w) (definitional containment) <=> some pin "
    "word u of sigma has pinword_contains(w, u). Non-trivial = distinct (w, sigma) with sigma contained in perm(w) and |sigma|>=2, "
    "plus distinct decoded words of length >= 3."
)
ASSUMPTIONS = ["oracle: vf/oracle/pins.py (Fractions); known finding K3 recognised only by buggy-model replay of the word matcher"]
REQUIRED = ["env.shards_with_other_hashseed", "calls.PinWords.pinword_to_perm", "calls.PinWordUtil.call", "calls.PinWords.sp_to_m", "calls.PinWords.m_to_sp", "calls.PinWords.quadrant",
            "calls.PinWords.factor_pinword", "calls.PinWords.pinword_occurrences_sp", "calls.PinWords.pinword_contains", "tables.checked",
            "containment.decided", "containment.positive", "hook.numeral_pins", "hook.direction_pins", "aliasing.factor_list_mutated", "faults.injected", "long.factor_searches", "long.subpermutations_searched", "verylong.containment_decided", "ambient.perturbed_runs", "wordpairs.decided", "ephemeral.word_objects"]
MIN_NONTRIVIAL = 500
CTX = None
MON = None
FAULTS = None


def report(check, args, detail, known=None):
    CTX.fail(check, args, detail, known)


@functools.lru_cache(maxsize=200000)
def operm(word):
    return P.perm_of_word(word)


@functools.lru_cache(maxsize=None)
def words_of(sigma):
    return tuple(w for w in P.valid_words(len(sigma)) if operm(w) == sigma)


def post_to_perm(args, kwargs, res, exc):
    word = args[0]
    if isinstance(exc, monitor.InjectedFault):
        return
    CTX.ev()
    try:
        want = operm(word)
    except P.BadWord:
        return
    if exc is not None or type(res) is not Perm or tuple(res) != want:
        report("word", [word], f"pinword_to_perm({word!r}) = {res!r} ({exc!r}), pin placement gives {want}")
    elif len(word) >= 3:
        CTX.nt(("decode", word))


def post_call(args, kwargs, res, exc):
    """geometric predicates on the implementation's own coordinates"""
    _self, ch, pre = args[0], args[1], args[2]
    if exc is not None:
        return
    x, y = res
    xs, ys = [p[0] for p in pre], [p[1] for p in pre]
    CTX.ev()
    ok = x not in xs and y not in ys
    if ch in P.QUADS:
        CTX.count("hook.numeral_pins")
        sx, sy = P.QSIGN[ch]
        ok = ok and (x > max(xs) if sx > 0 else x < min(xs)) and (y > max(ys) if sy > 0 else y < min(ys))
    else:
        CTX.count("hook.direction_pins")
        lx, ly = pre[-1]
        exs, eys = xs[:-1], ys[:-1]
        if ch in "UD":
            ok = ok and (y > max(ys) if ch == "U" else y < min(ys))
            ok = ok and ((max(exs) < x < lx) or (lx < x < min(exs)))  # separates the last pin from all earlier ones
        else:
            ok = ok and (x > max(xs) if ch == "R" else x < min(xs))
            ok = ok and ((max(eys) < y < ly) or (ly < y < min(eys)))
    if not ok:
        report("word", ["?" + ch], f"pin for {ch!r} placed at {(x, y)} after {pre}: independence / separation predicate violated")


def post_sp_to_m(args, kwargs, res, exc):
    u = args[0]
    if not u or not P.is_strict(u):
        return
    CTX.ev()
    want = P.sp_to_m(u)
    if exc is not None or sorted(res) != want:
        report("strict", [u], f"sp_to_m({u!r}) = {res!r} ({exc!r}), want {want}")


def post_m_to_sp(args, kwargs, res, exc):
    w = args[0]
    if len(w) < 2 or not P.in_m(w):
        return
    CTX.ev()
    if exc is not None or res != P.m_to_sp(w):
        report("mword", [w], f"m_to_sp({w!r}) = {res!r} ({exc!r}), want {P.m_to_sp(w)!r}")


def post_quadrant(args, kwargs, res, exc):
    w, i = args[1], args[2]
    CTX.ev()
    try:
        want = P.quadrant_geo(w, i)
    except (P.BadWord, IndexError):
        return
    if exc is not None or res != want:
        report("word", [w], f"quadrant({w!r}, {i}) = {res!r} ({exc!r}), the pin lies in quadrant {want}")


def post_factor(args, kwargs, res, exc):
    w = args[0]
    CTX.ev()
    want = P.factors(w)
    if exc is not None or res != want:
        report("word", [w], f"factor_pinword({w!r}) = {res!r} ({exc!r}), want {want}")


def post_strict(args, kwargs, res, exc):
    CTX.ev()
    if res is not P.is_strict(args[0]):
        report("word", [args[0]], f"is_strict_pinword({args[0]!r}) = {res!r}")


def done_occ_sp(args, kwargs, items, exhausted, exc):
    w, u = args[1], args[2]
    start = args[3] if len(args) > 3 else kwargs.get("start_index", 0)
    if not exhausted or not u:
        return
    CTX.ev()
    try:
        want = P.occ_sp(w, u, start)
    except P.BadWord:
        return
    if list(items) != want:
        report("pair", [w, u], f"pinword_occurrences_sp({w!r}, {u!r}, {start}) = {list(items)}, want {want}")


def post_contains(args, kwargs, res, exc):
    w, u = args[1], args[2]
    CTX.ev()
    if exc is not None:
        report("pair", [w, u], f"pinword_contains({w!r}, {u!r}) raised {exc!r}")
        return
    if len(w) > 40:
        return  # (the word-level model is exponential on long words; those calls are judged geometrically by chk_verylong)
    try:
        if res is not P.word_contains(w, u, gap_rule=True):
            CTX.count("wordlevel.differs_from_gap_model")
    except P.BadWord:
        pass


def setup(ctx):
    global CTX, MON
    CTX = ctx
    MON = m = monitor.Monitors(ctx)
    m.wrap(PinWords, "pinword_to_perm", post_to_perm)
    m.wrap(PinWordUtil, "call", post_call)
    m.wrap(PinWords, "sp_to_m", post_sp_to_m)
    m.wrap(PinWords, "m_to_sp", post_m_to_sp)
    m.wrap(PinWords, "quadrant", post_quadrant)
    m.wrap(PinWords, "factor_pinword", post_factor)
    m.wrap(PinWords, "is_strict_pinword", post_strict)
    m.wrap_gen(PinWords, "pinword_occurrences_sp", done_occ_sp)
    m.wrap(PinWords, "pinword_contains", post_contains)
    global FAULTS
    import permuta.permutils.pin_words as PWM
    import permuta.permutils.pinword_util as PWU

    FAULTS = monitor.FaultInjector(monitor.module_code_objects(PWM, "pin_words.py") + monitor.module_code_objects(PWU, "pinword_util.py"))


def teardown(ctx):
    FAULTS.close()
    MON.uninstall()


# ---- replayable checks -----------------------------------------------------------------------------------------------
def chk_word(ctx, w):
    if w.startswith("?"):
        return
    PinWords.pinword_to_perm(w)
    fs = PinWords.factor_pinword(w)
    ctx.ev()
    if "".join(fs) != w or any(f[0] not in P.QUADS for f in fs if w):
        report("word", [w], f"factors {fs} do not concatenate back / are not numeral-led")
    # aliasing: a caller that reorders / empties a returned factor list must not change later answers
    fs.sort(reverse=True)
    del fs[:1]
    CTX.count("aliasing.factor_list_mutated")
    PinWords.factor_pinword(w)
    ms = list(PinWords.sp_to_m(w)) if P.is_strict(w) and w else []
    for i in range(len(w)):
        PinWords.quadrant(w, i)
    PinWords.is_strict_pinword(w)
    if P.is_strict(w) and w:
        chk_strict(ctx, w)


def chk_strict(ctx, u):
    ms = PinWords.sp_to_m(u)
    ctx.ev()
    ok = all(PinWords.m_to_sp(m) == u for m in ms) and len(ms) == (2 if len(u) == 1 else 1) and all(P.in_m(m) for m in ms)
    if not ok:
        report("strict", [u], f"m_to_sp(sp_to_m({u!r})) != identity: {ms}")


def chk_mword(ctx, w):
    u = PinWords.m_to_sp(w)
    back = PinWords.sp_to_m(u)
    ctx.ev()
    if w not in back or not P.is_strict(u):
        report("mword", [w], f"sp_to_m(m_to_sp({w!r})) = {back}")


def chk_tables(ctx, n):
    listed = list(PinWords.pinwords_of_length(n))
    want = P.valid_words(n)
    ctx.ev()
    ctx.count("tables.checked")
    if sorted(listed) != sorted(want) or len(set(listed)) != len(listed):
        report("tables", [n], f"pinwords_of_length({n}) yields {len(listed)} words ({len(set(listed))} distinct), definition gives {len(want)}")
    w2p = PinWords.pinword_to_perm_mapping(n)
    p2w = PinWords.perm_to_pinword_mapping(n)
    p2s = PinWords.perm_to_strict_pinword_mapping(n)
    strict = list(PinWords.strict_pinwords_of_length(n))
    ctx.ev()
    ok = set(w2p) == set(want) and all(tuple(w2p[w]) == operm(w) for w in want)
    inv = {}
    for w in want:
        inv.setdefault(operm(w), set()).add(w)
    ok = ok and {tuple(k): set(v) for k, v in p2w.items()} == inv
    ok = ok and {tuple(k): set(v) for k, v in p2s.items()} == {k: {w for w in v if P.is_strict(w)} for k, v in inv.items()}
    ok = ok and sorted(strict) == sorted(w for w in want if P.is_strict(w))
    if not ok:
        report("tables", [n], f"word->perm / perm->words / strict tables of length {n} are not mutually inverse or disagree with decoding")


def chk_containment(ctx, w, sigma):
    """sigma <= perm(w)  <=>  some pin word u of sigma is found in w"""
    sig = tuple(sigma)
    us = words_of(sig)
    truth = C.contains(operm(w), sig)
    got = any(PinWords.pinword_contains(w, u) for u in us)
    ctx.ev()
    ctx.count("containment.decided")
    if truth:
        ctx.count("containment.positive")
        if len(sig) >= 2:
            ctx.nt(("contain", w, sig))
    if got is not truth:
        known = None
        buggy = any(P.word_contains(w, u, gap_rule=False) for u in us)
        fixed = any(P.word_contains(w, u, gap_rule=True) for u in us)
        if got is buggy and truth is fixed:
            known = "pinword-adjacent-direction-factor"
        report("contain", [w, list(sig)], f"perm({w!r}) = {operm(w)} contains {sig}: {truth}; pin words of {sig} found in {w!r}: {got}", known)
    # occurrences generator consistent with contains
    if us:
        u = us[ctx.rng.randrange(len(us))]
        occs = list(PinWords.pinword_occurrences(w, u))
        ctx.ev()
        sp_ok = True
        if u:
            f0 = P.factors(u)[0]
            sp_ok = PinWords.pinword_contains_sp(w, f0) is bool(list(PinWords.pinword_occurrences_sp(w, f0)))
        if bool(occs) is not PinWords.pinword_contains(w, u) or not sp_ok:
            report("contain", [w, list(sig)], f"pinword_occurrences / pinword_contains disagree for {u!r} in {w!r}")


def rand_word(rng, n, p_numeral=0.15):
    """a random pin word of length n; staircases (period-two direction runs) are favoured half of the time"""
    w = rng.choice(P.QUADS)
    stair = rng.random() < 0.5
    a, b = rng.choice(P.VERT), rng.choice(P.HORI)
    pair = rng.choice([a + b, b + a])
    while len(w) < n:
        prev = w[-1]
        if rng.random() < p_numeral:
            w += rng.choice(P.QUADS)
            continue
        if prev in P.QUADS:
            allowed = P.DIRS
        else:
            allowed = P.HORI if prev in P.VERT else P.VERT
        if stair and rng.random() < 0.85:
            cand = [c for c in pair if c in allowed]
            w += cand[0] if cand else rng.choice(allowed)
        else:
            w += rng.choice(allowed)
    return w


def chk_long(ctx, w, seed):
    """long words (beyond the exhaustive bound): strict factors read off the word itself (and near misses of them) are
    searched for, and sub-permutations of perm(w) must be found through their pin words"""
    import random
    rng = random.Random(seed)
    chk_word(ctx, w)
    n = len(w)
    for _ in range(6):
        i = rng.randrange(n)
        k = rng.randint(1, min(6, n - i))
        tail = w[i + 1: i + k]
        if any(c in P.QUADS for c in tail):
            tail = tail[: min(j for j, c in enumerate(tail) if c in P.QUADS)]
        u = P.quadrant_geo(w, i) + tail
        cands = [u]
        if len(u) >= 2:
            j = rng.randrange(1, len(u))
            flip = {"U": "D", "D": "U", "L": "R", "R": "L"}[u[j]]
            cands.append(u[:j] + flip + u[j + 1:])
            cands.append(u[:-1])
        for c in cands:
            for start in (0, rng.randrange(n)):
                list(PinWords.pinword_occurrences_sp(w, c, start))  # judged by the generator monitor
            got = PinWords.pinword_contains_sp(w, c)
            ctx.ev()
            if got is not bool(P.occ_sp(w, c, 0)):
                report("long", [w, seed], f"pinword_contains_sp({w!r}, {c!r}) = {got}, occurrences by definition: {P.occ_sp(w, c, 0)}")
        ctx.count("long.factor_searches")
    big = operm(w)
    for k in (3, 4, 5, 5):
        if k > len(big):
            continue
        idx = sorted(rng.sample(range(len(big)), k))
        chk_containment(ctx, w, list(C.std([big[i] for i in idx])))
        ctx.count("long.subpermutations_searched")
    chk_containment(ctx, w, rng.sample(range(4), 4))


def chk_wordpair(ctx, w, u):
    """word level, any pin word u (not only the tabulated ones): `u is found in w` against real containment of the decoded
    permutations; disagreements are classified with the two word models exactly as in chk_containment"""
    try:
        truth = C.contains_bt(operm(w), operm(u))
    except P.BadWord:
        return
    got = PinWords.pinword_contains(w, u)
    ctx.ev()
    ctx.count("wordpairs.decided")
    if got:
        ctx.nt(("wordpair", w, u))
    if got is not truth:
        buggy, fixed = P.word_contains(w, u, gap_rule=False), P.word_contains(w, u, gap_rule=True)
        known = "pinword-adjacent-direction-factor" if (got is buggy and got and not truth and not fixed) else None
        if not (not got and truth):  # (not finding ONE particular pin word of a contained pattern is no violation: another may be found)
            report("wordpair", [w, u], f"pinword_contains({w!r}, {u!r}) = {got}, but perm({u!r}) = {operm(u)} inside perm({w!r}) = {operm(w)}: {truth}", known)


def periodic_pairs(rng, count):
    """u made of one factor repeated (or nearly), w a word that keeps repeating that factor's letters: matches may overlap"""
    out = []
    for _ in range(count):
        num = rng.choice(P.QUADS)
        a, b = rng.choice(P.VERT), rng.choice(P.HORI)
        dirs = rng.choice([a + b, b + a])
        f = num + (dirs * 2)[: rng.choice([2, 2, 3])]
        u = f * rng.choice([2, 2, 3]) if rng.random() < 0.7 else f + rng.choice(P.QUADS) + dirs[:1]
        for extra in (0, 1, 2, 3):
            w = num + (dirs * 6)[: len(f) - 1 + extra + rng.choice([0, 2])]
            out.append((w, u))
            out.append((f + w[1:], u))
    good = []
    for w, u in out:
        try:
            P.place(w), P.place(u)
        except P.BadWord:
            continue
        good.append((w, u))
    return good


def chk_ephemeral(ctx, w1, w2, u):
    """the answer for a word must not depend on WHICH string object carries it: words built on the fly (and gone right after
    the call) against the same words held in variables, in both orders"""
    held = (PinWords.pinword_contains(w2, u), PinWords.pinword_contains(w1, u))
    got = []
    for w in (w1, w2, w1, w2):
        got.append(PinWords.pinword_contains("".join(list(w)), "".join(list(u))))  # temporaries: freed before the next one exists
        list(PinWords.pinword_occurrences("".join(list(w)), u))
    ctx.ev()
    ctx.count("ephemeral.word_objects")
    if got != [held[1], held[0], held[1], held[0]]:
        report("ephemeral", [w1, w2, u], f"pinword_contains answers {got} for freshly built word objects, {[held[1], held[0]] * 2} for the same words held in variables")


def chk_verylong(ctx, w, sigmas):
    """words of more than a thousand letters: decoding (monitor) and containment of short patterns, judged geometrically.
    Only the direction the known finding cannot touch is asserted: a contained pattern must be found, and no call may fail."""
    big = operm(w)
    PinWords.pinword_to_perm(w)
    PinWords.factor_pinword(w)
    for sig in sigmas:
        sig = tuple(sig)
        truth = C.contains(big, sig) if len(sig) <= 2 else SO.contains3(big, sig)
        got = any(PinWords.pinword_contains(w, u) for u in words_of(sig))
        ctx.ev()
        ctx.count("verylong.containment_decided")
        if truth and not got:
            report("verylong", [w, [list(s) for s in sigmas]], f"perm of a {len(w)}-letter word contains {sig} but none of its pin words is found in the word")
        elif got and not truth:
            ctx.count("verylong.positive_not_confirmed")


def chk_ambient(ctx, seed):
    """process-global state changed by unrelated code before the library is used: tiny decimal precision, re-seeded random
    module, another working directory, a different recursion limit; decoding and tables are judged by the monitors as always"""
    import decimal
    import os
    import random
    import sys
    import tempfile

    rng = random.Random(seed)
    old = (decimal.getcontext().prec, os.getcwd(), sys.getrecursionlimit())
    tmp = tempfile.mkdtemp(prefix="vf-c14-")
    try:
        decimal.getcontext().prec = rng.choice([1, 2, 3])
        random.seed(12345)
        os.chdir(tmp)
        sys.setrecursionlimit(rng.choice([1500, 3000]))
        for n in (1, 2, 3, 4):
            chk_tables(ctx, n)
        for _ in range(60):
            w = rand_word(rng, rng.choice([3, 5, 9, 25, 60, 210]), rng.choice([0.0, 0.1]))
            chk_word(ctx, w)
        ctx.count("ambient.perturbed_runs")
    finally:
        decimal.getcontext().prec = old[0]
        os.chdir(old[1])
        sys.setrecursionlimit(old[2])
        import shutil

        shutil.rmtree(tmp, ignore_errors=True)


def chk_table_fault(ctx, n, k):
    """error path: the FIRST request of a table for a length is aborted at a failpoint; the tables must be right afterwards"""
    for fn in (PinWords.perm_to_pinword_mapping, PinWords.pinword_to_perm_mapping, PinWords.perm_to_strict_pinword_mapping):
        if monitor.with_fault(FAULTS, k, lambda: fn(n)):
            ctx.count("faults.injected")
    chk_tables(ctx, n)


CHECKS = {"wordpair": chk_wordpair, "ephemeral": chk_ephemeral, "verylong": chk_verylong, "ambient": chk_ambient, "long": chk_long, "tablefault": chk_table_fault, "word": chk_word, "strict": chk_strict, "mword": chk_mword, "tables": chk_tables, "contain": chk_containment}


def plan(tier, seed):
    specs = [{"name": "tables", "kind": "tables", "nmax": 5 if tier == "quick" else 6}]
    specs += [{"name": f"tablefault-{i}", "kind": "tablefault", "k": k} for i, k in enumerate([3, 40, 700, 5000] if tier == "quick" else [1, 3, 17, 40, 333, 700, 2500, 5000, 12000])]
    wmax = 4
    parts = 16
    specs += [{"name": f"contain-{i}", "kind": "contain", "wmax": wmax, "part": i, "parts": parts,
               "sample5": (400 if tier == "quick" else 5000) // parts, "sample6": (0 if tier == "quick" else 2000) // parts} for i in range(parts)]
    specs += [{"name": "ambient", "kind": "ambient"}, {"name": "verylong", "kind": "verylong"}]
    # the same kind of work under another string-hash seed (sets of pin words are iterated in another order)
    specs += [dict(specs[-3 - j], name=f"contain-hashseed-{j}", env={"PYTHONHASHSEED": str(4242 + 17 * j + seed)}) for j in range(2)]
    specs += [{"name": f"long-{i}", "kind": "long", "count": 40 if tier == "quick" else 400} for i in range(4 if tier == "quick" else 12)]
    return specs


def run(ctx, spec):
    rng = ctx.rng
    if spec["kind"] == "ambient":
        # a fresh process: the tables are built for the first time under the perturbed state
        chk_ambient(ctx, rng.randrange(10 ** 9))
        return
    if spec["kind"] == "verylong":
        a, b = rng.choice(["RU", "UR", "LD", "DL", "RD", "UL"]), rng.choice(["3L", "2U", "4R", "1U"])
        # (the library's own search is polynomial of degree = number of factors of the pattern's pin words: patterns of
        # length 2 on the words of more than 1000 letters, length 3 on a 300-letter word)
        for w in ("1" + "RU" * 575 + "3L", rng.choice("1234") + a * rng.randint(520, 600) + b):
            chk_verylong(ctx, w, [[1, 0], [0, 1]])
        chk_verylong(ctx, rng.choice("1234") + a * 150 + b, [[0, 1, 2], [2, 1, 0], [1, 0, 2]])
        ctx.note("two words of more than 1000 letters, one of 300")
        return
    if spec["kind"] == "long":
        for _ in range(spec["count"]):
            w = rand_word(rng, rng.randint(6, 11), rng.choice([0.0, 0.0, 0.1, 0.25]))
            chk_long(ctx, w, rng.randrange(10 ** 6))
        for w in ("1URURUL", "1URURURD", "3DLDLDLU", "2ULULULULD", "1URURUL4RURURD", "41URURUL"):
            chk_long(ctx, w, rng.randrange(10 ** 6))
        for w, u in periodic_pairs(rng, 25):
            chk_wordpair(ctx, w, u)
        for _ in range(60):
            n = rng.randint(2, 6)
            w1, w2 = rand_word(rng, n, 0.3), rand_word(rng, n, 0.3)
            us = words_of(tuple(rng.sample(range(2), 2))) + words_of((0,))
            chk_ephemeral(ctx, w1, w2, rng.choice(us))
        ctx.sample({"long_word": w, "perm_of_word": list(operm(w))})
        ctx.note("long words: lengths 6..14, staircases favoured; factors read off the word, sub-permutations of perm(w) of length 3..5")
        return
    if spec["kind"] == "tablefault":
        # a fresh process per failpoint: the tables are memoised for the life of the process
        for n in (2, 3, 4, 5):
            chk_table_fault(ctx, n, spec["k"] * (1 if n < 5 else 3))
        ctx.sample({"table_request_aborted_at_statement": spec["k"]})
        return
    if spec["kind"] == "tables":
        for n in range(spec["nmax"] + 1):
            chk_tables(ctx, n)
        for n in range(2, 9):
            for w in P.m_words(n):
                chk_mword(ctx, w)
        ctx.note(f"exhaustive: tables and enumeration for every length <= {spec['nmax']}; every M-word of length 2..8")
    else:
        words = [w for n in range(1, spec["wmax"] + 1) for w in P.valid_words(n)]
        sigmas = [list(p) for k in range(0, 5) for p in itertools.permutations(range(k))]  # the empty permutation included
        for i, w in enumerate(words):
            if i % spec["parts"] != spec["part"]:
                continue
            chk_word(ctx, w)
            for s in sigmas:
                chk_containment(ctx, w, s)
        long5 = P.valid_words(5)
        for w in rng.sample(long5, spec["sample5"]):
            chk_word(ctx, w)
            for s in rng.sample(sigmas, 12):
                chk_containment(ctx, w, s)
        if spec["sample6"]:
            long6 = P.valid_words(6)
            for w in rng.sample(long6, spec["sample6"]):
                chk_word(ctx, w)
                for s in rng.sample(sigmas, 8):
                    chk_containment(ctx, w, s)
        ctx.note(f"exhaustive: every pin word of length <= {spec['wmax']} x every permutation of length 1..4 (part {spec['part']}/{spec['parts']})")
        ctx.sample({"word": w, "sigma": s, "perm_of_word": list(operm(w))})
