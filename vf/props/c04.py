"""C04 The eight symmetries act consistently on permutations, patterns and containment."""
import argparse
import contextlib
import io
import itertools
import os
import subprocess
import sys

from permuta import BivincularPatt, MeshPatt, Perm
from permuta.permutils import symmetry as S

from .. import monitor
from ..conv import dec, enc
from ..oracle import classical as C
from ..oracle import geometry as G
from ..oracle import mesh as M

ID = "C04"
RULE = (
    "Monitors on Perm/MeshPatt reverse, complement, inverse, rotate, flip_antidiagonal, reverse_complement, all_syms "
    "and on permutils.symmetry (*_set, all_symmetry_sets, lex_min) decide every call against the isometries of the "
    "square acting on the point set / cell centres (vf/oracle/geometry.py). Workload: all of S_n with rotation counts "
    "-9..9 and the dihedral relations, every mesh pattern of length <=2 plus sparse random longer ones (asymmetric "
    "shadings preferred), containment equivariance triples (text, pattern, symmetry) decided by the C01/C03 oracles, "
    "orbit sets and lex_min of random sets, and the `permtools lexmin` CLI for 0- and 1-based spellings. "
    "Non-trivial = distinct (object, symmetry) with image != object, and distinct equivariance triples with containment true."
)
ASSUMPTIONS = ["rotate(1) is the clockwise quarter turn (as the *_clockwise_set helpers name it)", "oracle: geometry.py + mesh.py"]
REQUIRED = [
    "calls.Perm.rotate", "calls.Perm.reverse", "calls.Perm.complement", "calls.Perm.inverse", "calls.Perm.flip_antidiagonal",
    "calls.Perm.reverse_complement", "calls.Perm.all_syms", "calls.MeshPatt.rotate", "calls.MeshPatt.reverse",
    "calls.MeshPatt.complement", "calls.MeshPatt.inverse", "calls.MeshPatt.all_syms", "calls.symmetry.all_symmetry_sets",
    "calls.symmetry.lex_min", "equivariance.true", "equivariance.false", "cli.inprocess", "cli.subprocess", "relations.checked", "aliasing.orbit_mutated", "equivariance.random_classmethod_patterns", "equivariance.long_patterns", "sets.other_containers", "equivariance.multi_pattern_calls",
]
MIN_NONTRIVIAL = 500
CTX = None
MON = None

PERM_OPS = {
    "reverse": "flip_vertical_axis", "complement": "flip_horizontal_axis", "inverse": "flip_diagonal",
    "flip_antidiagonal": "flip_antidiagonal", "reverse_complement": "rot180",
}
MESH_OPS = {"reverse": "flip_vertical_axis", "complement": "flip_horizontal_axis", "inverse": "flip_diagonal"}
ALIASES = {"flip_horizontal": "complement", "flip_vertical": "reverse", "flip_diagonal": "inverse"}


def rot_matrix(k):
    return G.power(G.SYMS["rot90cw"], k) if k >= 0 else G.power(G.SYMS["rot90ccw"], -k)


def report(check, args, detail):
    CTX.fail(check, args, detail)


def valid_perm(res):
    return isinstance(res, Perm) and sorted(res) == list(range(len(res)))


def post_perm_op(name, sym):
    def post(args, kwargs, res, exc):
        p = tuple(args[0])
        CTX.ev()
        want = G.act_perm(G.SYMS[sym], p)
        if exc is not None or not valid_perm(res) or tuple(res) != want:
            report("perm", [list(p)], f"Perm{p}.{name}() = {res!r} ({exc!r}), isometry {sym} gives {want}")
        elif want != p:
            CTX.nt(("perm", p, name))
    return post


def post_perm_rotate(args, kwargs, res, exc):
    p = tuple(args[0])
    k = args[1] if len(args) > 1 else kwargs.get("times", 1)
    CTX.ev()
    want = G.act_perm(rot_matrix(k), p)
    if exc is not None or not valid_perm(res) or tuple(res) != want:
        report("perm", [list(p)], f"Perm{p}.rotate({k}) = {res!r} ({exc!r}), {k} clockwise quarter turns give {want}")
    elif want != p:
        CTX.nt(("perm", p, "rotate", k % 4))


def post_perm_all_syms(args, kwargs, res, exc):
    p = tuple(args[0])
    CTX.ev()
    want = G.orbit_perm(p)
    got = [tuple(q) for q in res] if exc is None else None
    if got is None or len(set(got)) != len(got) or set(got) != want or 8 % len(got):
        report("perm", [list(p)], f"Perm{p}.all_syms() = {got} ({exc!r}), orbit is {sorted(want)}")


def mesh_plain(m):
    return tuple(m.pattern), frozenset(m.shading)


def valid_mesh(res):
    k = len(res.pattern)
    return isinstance(res, MeshPatt) and valid_perm(res.pattern) and all(0 <= x <= k and 0 <= y <= k for x, y in res.shading)


def post_mesh_op(name, sym):
    def post(args, kwargs, res, exc):
        p, s = mesh_plain(args[0])
        CTX.ev()
        want = G.act_mesh(G.SYMS[sym], p, s)
        if exc is not None or not valid_mesh(res) or mesh_plain(res) != want:
            report("mesh", [enc(args[0])], f"{args[0]!r}.{name}() = {res!r} ({exc!r}), isometry {sym} gives ({want[0]}, {sorted(want[1])})")
        elif want != (p, s):
            CTX.nt(("mesh", p, tuple(sorted(s)), name))
    return post


def post_mesh_rotate(args, kwargs, res, exc):
    p, s = mesh_plain(args[0])
    k = args[1] if len(args) > 1 else kwargs.get("times", 1)
    CTX.ev()
    want = G.act_mesh(rot_matrix(k), p, s)
    if exc is not None or not valid_mesh(res) or mesh_plain(res) != want:
        report("mesh", [enc(args[0])], f"{args[0]!r}.rotate({k}) = {res!r} ({exc!r}), want ({want[0]}, {sorted(want[1])})")
    elif want != (p, s):
        CTX.nt(("mesh", p, tuple(sorted(s)), "rotate", k % 4))


def post_mesh_all_syms(args, kwargs, res, exc):
    p, s = mesh_plain(args[0])
    CTX.ev()
    want = G.orbit_mesh(p, s)
    got = [mesh_plain(q) for q in res] if exc is None else None
    if got is None or len(set(got)) != len(got) or set(got) != want or 8 % len(got):
        report("mesh", [enc(args[0])], f"{args[0]!r}.all_syms() has {None if got is None else len(got)} elements ({exc!r}), orbit has {len(want)}")


SET_HELPERS = {
    "rotate_90_clockwise_set": "rot90cw", "rotate_180_clockwise_set": "rot180", "rotate_270_clockwise_set": "rot90ccw",
    "inverse_set": "flip_diagonal", "reverse_set": "flip_vertical_axis", "complement_set": "flip_horizontal_axis",
    "antidiagonal_set": "flip_antidiagonal",
}
# three clockwise quarter turns = one counter-clockwise quarter turn
assert G.power(G.SYMS["rot90cw"], 3) == G.SYMS["rot90ccw"]


def done_set_helper(name, sym):
    def done(args, kwargs, items, exhausted, exc):
        perms = args[0]
        if not exhausted or not isinstance(perms, (list, tuple)):
            return
        CTX.ev()
        want = [G.act_perm(G.SYMS[sym], tuple(p)) for p in perms]
        if [tuple(q) for q in items] != want:
            report("sets", [[list(p) for p in perms]], f"{name} gives {items}, want {want}")
    return done


def post_all_symmetry_sets(args, kwargs, res, exc):
    perms = args[0]
    if not isinstance(perms, (list, tuple)):
        return
    CTX.ev()
    want = G.orbit_sets([tuple(p) for p in perms])
    got = {tuple(tuple(q) for q in tup) for tup in res} if exc is None else None
    if got is not None and len(got) != len(res):
        report("sets", [[list(p) for p in perms]], f"all_symmetry_sets returns {len(res)} members of which only {len(got)} are different sets of permutations")
    if got != want:
        report("sets", [[list(p) for p in perms]], f"all_symmetry_sets = {got} ({exc!r}), orbit of the set is {want}")


def post_lex_min(args, kwargs, res, exc):
    perms = args[0]
    if not isinstance(perms, (list, tuple)):
        return
    CTX.ev()
    want = G.lex_min_set([tuple(p) for p in perms])
    if exc is not None or tuple(tuple(q) for q in res) != want:
        report("sets", [[list(p) for p in perms]], f"lex_min = {res!r} ({exc!r}), want {want}")


def setup(ctx):
    global CTX, MON
    CTX = ctx
    MON = m = monitor.Monitors(ctx)
    for name, sym in PERM_OPS.items():
        al = tuple(a for a, tgt in ALIASES.items() if tgt == name)
        m.wrap(Perm, name, post_perm_op(name, sym), aliases=al)
    m.wrap(Perm, "rotate", post_perm_rotate)
    m.wrap(Perm, "all_syms", post_perm_all_syms)
    for name, sym in MESH_OPS.items():
        al = tuple(a for a, tgt in ALIASES.items() if tgt == name)
        m.wrap(MeshPatt, name, post_mesh_op(name, sym), aliases=al)
    m.wrap(MeshPatt, "rotate", post_mesh_rotate)
    m.wrap(MeshPatt, "all_syms", post_mesh_all_syms)
    for name, sym in SET_HELPERS.items():
        m.wrap_gen(S, name, done_set_helper(name, sym), label="symmetry." + name)
    m.wrap(S, "all_symmetry_sets", post_all_symmetry_sets, label="symmetry.all_symmetry_sets")
    m.wrap(S, "lex_min", post_lex_min, label="symmetry.lex_min")


def teardown(ctx):
    MON.uninstall()


# ---- replayable checks ----------------------------------------------------------------------------
def relations(obj, check, args):
    """Dihedral relations on the real objects: r^4 = s^2 = 1, s r s = r^-1, rotate(k) = rotate(k mod 4)."""
    CTX.count("relations.checked")
    r, s = (lambda o: o.rotate()), (lambda o: o.reverse())
    ok = (
        r(r(r(r(obj)))) == obj and s(s(obj)) == obj and s(r(s(obj))) == obj.rotate(-1)
        and obj.inverse().inverse() == obj and obj.complement().complement() == obj
        and obj.rotate(2) == obj.reverse().complement() and obj.inverse() == obj.rotate().complement()
        and all(obj.rotate(k) == obj.rotate(k % 4) for k in range(-9, 10))
        and obj.flip_horizontal() == obj.complement() and obj.flip_vertical() == obj.reverse() and obj.flip_diagonal() == obj.inverse()
    )
    CTX.ev()
    if not ok:
        report(check, args, f"dihedral relations fail for {obj!r}")


def chk_perm(ctx, p):
    P = Perm(p)
    for name in PERM_OPS:
        getattr(P, name)()
    P.all_syms()
    relations(P, "perm", [p])
    ctx.ev()
    if not (P.flip_antidiagonal() == P.rotate().reverse() and P.reverse_complement() == P.rotate(2)):
        report("perm", [p], "antidiagonal / reverse_complement relations fail")


def chk_mesh(ctx, m):
    Mp = dec(m)
    for name in MESH_OPS:
        getattr(Mp, name)()
    Mp.all_syms()
    relations(Mp, "mesh", [m])


def real_sym(obj, g):
    """apply the g-th symmetry through the library's own operations"""
    r = obj.rotate(g % 4)
    return r.inverse() if g >= 4 else r


def oracle_sym(g):
    m = G.power(G.SYMS["rot90cw"], g % 4)
    return G.mul(G.SYMS["flip_diagonal"], m) if g >= 4 else m


def chk_equiv(ctx, t, patt, g):
    """t contains patt  <=>  g(t) contains g(patt)   (left side by the oracle, right side by the library)"""
    T, P = Perm(t), dec(patt)
    if isinstance(P, Perm):
        want = C.contains(tuple(T), tuple(P))
    else:
        want = M.contains(tuple(T), tuple(P.pattern), frozenset(P.shading))
    gT, gP = real_sym(T, g), real_sym(P, g)
    got = gT.contains(gP)
    ctx.ev()
    ctx.count("equivariance.true" if want else "equivariance.false")
    if got is not want:
        report("equiv", [t, patt, g], f"{tuple(T)} contains {P!r} is {want}; image under symmetry #{g}: {tuple(gT)} contains {gP!r} is {got}")
    if want:
        ctx.nt(("equiv", tuple(t), repr(P), g))
    # the images themselves against geometry (monitors have already judged the individual calls)
    if tuple(gT) != G.act_perm(oracle_sym(g), tuple(T)):
        report("equiv", [t, patt, g], "composite symmetry differs from the isometry")


def chk_equiv_multi(ctx, t, patts, g):
    """t.contains(p1, p2, ...) <=> g(t).contains(g(p1), g(p2), ...), left side by the oracle"""
    T = Perm(t)
    PS = [dec(q) for q in patts]

    def truth(P):
        return C.contains(tuple(T), tuple(P)) if isinstance(P, Perm) else M.contains(tuple(T), tuple(P.pattern), frozenset(P.shading))

    want = all(truth(P) for P in PS)
    gT, gPS = real_sym(T, g), [real_sym(P, g) for P in PS]
    got, got_avoid = gT.contains(*gPS), gT.avoids(*gPS)
    ctx.ev()
    ctx.count("equivariance.multi_pattern_calls")
    if got is not want or got_avoid is not (not any(truth(P) for P in PS)):
        report("equivmulti", [t, patts, g], f"{tuple(T)} contains all of {PS!r} is {want}; image under symmetry #{g} answers contains={got}, avoids={got_avoid}")


def cli_lexmin(text):
    from permuta import cli

    if len(text) % 2:  # through the argument parser and the sub-command table
        from ..cliutil import run_main

        return run_main(["lexmin", text])[0].strip()
    buf = io.StringIO()
    with contextlib.redirect_stdout(buf):
        cli.get_lex_min(argparse.Namespace(basis=text))
    return buf.getvalue().strip()


def minimal(perms):
    perms = sorted(set(perms), key=G.key)
    keep = []
    for p in perms:
        if not any(C.contains(p, q) for q in keep):
            keep.append(p)
    return keep


def chk_sets(ctx, perms):
    PS = [Perm(p) for p in perms]
    first = S.all_symmetry_sets(PS)
    first.clear()  # a caller that edits a returned orbit must not change later answers
    ctx.count("aliasing.orbit_mutated")
    sets = S.all_symmetry_sets(PS)
    lm = S.lex_min(PS)
    ctx.ev()
    # constant on the orbit
    for tup in list(sets)[:8]:
        if S.lex_min(list(tup)) != lm:
            report("sets", [perms], f"lex_min differs inside the orbit: {lm} vs {S.lex_min(list(tup))} for {tup}")
    for name in SET_HELPERS:
        list(getattr(S, name)(PS))
    # the same collection in the other forms the functions are given in practice (the CLI hands over a Basis)
    from permuta import Basis

    base_list = [Perm(q) for q in minimal([tuple(p) for p in perms])]
    if base_list and all(len(q) for q in base_list):
        ref_sets = {tuple(tuple(q) for q in tup) for tup in S.all_symmetry_sets(base_list)}
        ref_min = tuple(tuple(q) for q in S.lex_min(base_list))
        for form in (tuple(base_list), Basis(*base_list), tuple(reversed(base_list))):
            sets2, lm2 = S.all_symmetry_sets(form), S.lex_min(form)
            ctx.ev()
            ctx.count("sets.other_containers")
            if {tuple(tuple(q) for q in tup) for tup in sets2} != ref_sets or len(sets2) != len(ref_sets) or tuple(tuple(q) for q in lm2) != ref_min:
                report("sets", [perms], f"all_symmetry_sets / lex_min of the same permutations given as {type(form).__name__} differ from the list form")
            for tup in list(sets2)[:8]:
                if S.lex_min(list(tup)) != lm2 and tuple(tuple(q) for q in S.lex_min(list(tup))) == tuple(tuple(q) for q in lm2):
                    report("sets", [perms], f"lex_min of a {type(form).__name__} compares unequal to the lex_min of another member of the same orbit although it denotes the same permutations")
    if all(len(p) <= 9 and len(p) >= 1 for p in perms) and perms:
        base = minimal([tuple(p) for p in perms])
        want = "_".join("".join(map(str, p)) for p in G.lex_min_set(base))
        for one_based in (False, True):
            text = ":".join("".join(str(v + one_based) for v in p) for p in perms)
            got = cli_lexmin(text)
            ctx.ev()
            ctx.count("cli.inprocess")
            if got != want:
                report("sets", [perms], f"permtools lexmin {text!r} printed {got!r}, want {want!r}")


def chk_cli_subprocess(ctx, perms):
    base = minimal([tuple(p) for p in perms])
    want = "_".join("".join(map(str, p)) for p in G.lex_min_set(base))
    text = "_".join("".join(str(v + 1) for v in p) for p in perms)
    res = subprocess.run([sys.executable, "-c", "from permuta.cli import main; main()", "lexmin", text],
                         capture_output=True, text=True, timeout=300, env=dict(os.environ))
    ctx.ev()
    ctx.count("cli.subprocess")
    if res.returncode != 0 or res.stdout.strip() != want:
        report("cli", [perms], f"`permtools lexmin {text}` -> rc={res.returncode} {res.stdout.strip()!r}, want {want!r}")


CHECKS = {"equivmulti": chk_equiv_multi, "perm": chk_perm, "mesh": chk_mesh, "equiv": chk_equiv, "sets": chk_sets, "cli": chk_cli_subprocess}


# ---- workload ------------------------------------------------------------------------------------------
def plan(tier, seed):
    nmax = 6 if tier == "quick" else 8
    specs = [{"name": f"perms-{n}-{part}", "kind": "perms", "n": n, "part": part, "parts": parts}
             for n in range(nmax + 1) for parts in [1 if n < 6 else (4 if n == 6 else (16 if n == 7 else 96))] for part in range(parts)]
    specs += [{"name": f"mesh-small-{part}", "kind": "meshsmall", "part": part, "parts": 4} for part in range(4)]
    nrand = 3200 if tier == "quick" else 100000
    specs += [{"name": f"rand-{i}", "kind": "rand", "mesh": nrand // 32, "equiv": nrand // 16, "sets": (320 if tier == "quick" else 6000) // 16,
               "long": i < (2 if tier == "quick" else 8)} for i in range(16)]
    if tier == "thorough":
        specs.append({"name": "pairs", "kind": "pairs"})
    return specs


def rand_mesh(rng, k, asym=True):
    p = rng.sample(range(k), k)
    for _ in range(20):
        dens = rng.choice([0.1, 0.25, 0.5])
        s = frozenset((x, y) for x in range(k + 1) for y in range(k + 1) if rng.random() < dens)
        if not asym or len(G.orbit_mesh(tuple(p), s)) == 8:
            break
    return MeshPatt(Perm(p), s)


def run(ctx, spec):
    rng = ctx.rng
    kind = spec["kind"]
    if kind == "perms":
        for i, p in enumerate(itertools.permutations(range(spec["n"]))):
            if i % spec["parts"] == spec["part"]:
                chk_perm(ctx, list(p))
        ctx.note(f"exhaustive: S_{spec['n']} part {spec['part']}/{spec['parts']}, all named symmetries, rotate(-9..9), relations")
    elif kind == "meshsmall":
        i = 0
        for k in range(3):
            for p in itertools.permutations(range(k)):
                for s in M.all_shadings(k):
                    i += 1
                    if i % spec["parts"] == spec["part"]:
                        chk_mesh(ctx, enc(MeshPatt(Perm(p), s)))
        ctx.note("exhaustive: every mesh pattern of length <= 2")
        if spec["part"] == 0:
            chk_cli_subprocess(ctx, [[0, 2, 1], [2, 3, 0, 1]])
            chk_cli_subprocess(ctx, [[1, 2, 0]])
    elif kind == "rand":
        for _ in range(spec["mesh"]):
            k = rng.choice([3, 3, 4, 5])
            Mp = rand_mesh(rng, k, asym=rng.random() < 0.5)
            if rng.random() < 0.2:
                Mp = BivincularPatt(Mp.pattern, [x for x in range(k + 1) if rng.random() < 0.3], [x for x in range(k + 1) if rng.random() < 0.3])
            chk_mesh(ctx, enc(Mp))
        import random as _random
        from permuta import CovincularPatt, VincularPatt
        for _ in range(spec["equiv"] // 8):
            # bivincular-type patterns from the random() class methods and from one-shot iterables
            _random.seed(rng.randrange(10 ** 9))
            k = rng.randint(1, 3)
            cls = rng.choice([BivincularPatt, VincularPatt, CovincularPatt])
            if rng.random() < 0.5:
                B = cls.random(k)
            else:
                p = Perm(rng.sample(range(k), k))
                req = lambda: (x for x in range(k + 1) if rng.random() < 0.4)  # noqa: E731
                B = BivincularPatt(p, req(), iter(list(req()))) if cls is BivincularPatt else cls(p, req())
            n = rng.randint(k, 6)
            t = rng.sample(range(n), n)
            want = M.contains(tuple(t), tuple(B.pattern), frozenset(B.shading))
            for g in range(8):
                got = real_sym(Perm(t), g).contains(real_sym(B, g))
                ctx.ev()
                ctx.count("equivariance.true" if want else "equivariance.false")
                if got is not want:
                    report("equiv", [t, enc(B), g], f"{type(B).__name__} built by random()/iterables: {tuple(t)} contains {B!r} is {want}, but the image under symmetry #{g} says {got}")
            if B.contains is not None and Perm(t).contains(B) is not want:
                report("equiv", [t, enc(B), 0], f"{tuple(t)}.contains({B!r}) = {not want}, cell geometry gives {want}")
            ctx.count("equivariance.random_classmethod_patterns")
        for _ in range(spec["equiv"]):
            n = rng.randint(1, 8)
            t = rng.sample(range(n), n)
            k = rng.randint(1, min(4, n))
            if rng.random() < 0.6:
                pos = sorted(rng.sample(range(n), k))
                p = list(C.std([t[i] for i in pos]))
            else:
                p = rng.sample(range(k), k)
            if rng.random() < 0.4:
                patt = p
            else:
                dens = rng.choice([0.05, 0.1, 0.25])
                patt = enc(MeshPatt(Perm(p), [(x, y) for x in range(k + 1) for y in range(k + 1) if rng.random() < dens]))
            chk_equiv(ctx, t, patt, rng.randrange(8))
            if rng.random() < 0.3 and n >= 2:
                # several patterns (mesh ones among them, some planted so that they are contained) in ONE call, all eight images
                many = []
                for _ in range(rng.randint(2, 3)):
                    kk = rng.randint(1, min(3, n))
                    pos = sorted(rng.sample(range(n), kk))
                    q = list(C.std([t[i] for i in pos])) if rng.random() < 0.7 else rng.sample(range(kk), kk)
                    dens = rng.choice([0.0, 0.05, 0.15])
                    many.append(enc(MeshPatt(Perm(q), [(x, y) for x in range(kk + 1) for y in range(kk + 1) if rng.random() < dens])) if rng.random() < 0.8 else q)
                for g in range(8):
                    chk_equiv_multi(ctx, t, many, g)
        if spec.get("long"):
            # patterns of several hundred points inside a text with one extra point at the end / start / anywhere: all eight images
            k = rng.randint(500, 620)
            p = rng.sample(range(k), k)
            for pos in (k, 0, rng.randint(0, k)):
                val = rng.randint(0, k)
                t = [v + (v >= val) for v in p]
                t.insert(pos, val)
                for g in range(8):
                    chk_equiv(ctx, t, p, g)
                j = rng.randrange(k)
                t[j], t[j + 1] = t[j + 1], t[j]  # near miss
                chk_equiv(ctx, t, p, rng.randrange(8))
            chk_perm_long = Perm(p)
            for name in ("reverse", "complement", "inverse", "reverse_complement", "flip_antidiagonal"):
                getattr(chk_perm_long, name)()  # judged by the monitors against the isometries
            ctx.count("equivariance.long_patterns")
        ctx.sample({"equivariance": {"text": t[:30], "pattern": patt if not isinstance(patt, list) else patt[:30]}})
        for _ in range(spec["sets"]):
            perms = [rng.sample(range(k), k) for k in (rng.randint(1, 6) for _ in range(rng.randint(1, 4)))]
            chk_sets(ctx, perms)
        ctx.sample({"set": perms})
    elif kind == "pairs":
        pool = [list(p) for k in (3, 4) for p in itertools.permutations(range(k))]
        for a, b in itertools.combinations(pool, 2):
            chk_sets(ctx, [a, b])
        ctx.note("exhaustive: all 2-subsets of S_3 u S_4 for the set helpers / lex_min / CLI")
