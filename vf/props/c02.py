"""C02 Av(basis) reports exactly the avoiders, independent of query history."""
import itertools

from permuta import Av, Basis, BivincularPatt, CovincularPatt, MeshBasis, MeshPatt, Perm, VincularPatt

from .. import avmodel, monitor
from ..conv import dec, enc, plain
from ..oracle import classical as C
from ..oracle import mesh as M

ID = "C02"
RULE = (
    "Random and enumerated operation histories on Av (count, of_length, up_to_length, first, enumeration, `in`, "
    "is_subclass, clear_cache, other classes, new handles from equal bases, queries aborted by an exception injected at a "
    "random statement of the class's code (sys.monitoring failpoints), iterators opened early and drained "
    "after later operations / after clear_cache). Every result is compared with brute-force avoiders of the RAW "
    "basis (classical: definitional containment; mesh: cell geometry); monitors on every Av query method compare "
    "each call (also the internal ones) with the avoiders of self.basis, and a hook on Av._ensure_level checks "
    "that every built level's key set is exactly the avoider set. Non-trivial = distinct (basis, history) with an "
    "infinite class and a backwards length jump or an iterator resumed after a later build."
)
ASSUMPTIONS = [
    "oracle: brute-force avoiders (vf/avmodel.py); lengths <= N (7 classical / 6 mesh quick; 8 / 7 thorough)",
    "is_subclass with a mesh basis is only refutable by a bounded counterexample",
]
REQUIRED = [
    "calls.Av.count", "calls.Av.of_length", "calls.Av.up_to_length", "calls.Av.first", "calls.Av.enumeration",
    "calls.Av.__contains__", "calls.Av.is_subclass", "calls.Av._ensure_level", "hook.levels_checked",
    "op.clear", "op.iter_resumed", "op.rehandle", "op.in_sweep", "op.cli_count", "op.flood_of_other_classes", "faults.injected", "histories.mesh", "histories.classical", "subclass.true", "subclass.false",
]
MIN_NONTRIVIAL = 100
CTX = None
MON = None
FAULTS = None
NMAX = {"c": 7, "m": 6}
CASE = [None]
RAW_OF = {}  # id(Av) -> raw plain basis used to build it (for the K5 classifier)
EMPTY_SHADED = ((), frozenset({(0, 0)}))


def report(detail, known=None):
    check, args = CASE[0] if CASE[0] else ("adhoc", [])
    CTX.fail(check, args, detail, known)


def plain_basis(basis):
    return [plain(b) for b in basis]


def known_for(raws):
    for raw in raws:
        if any(q == EMPTY_SHADED for q in raw if isinstance(q, tuple) and len(q) == 2):
            return "shaded-empty-mesh-pattern"
    return None


def nmax_for(raw):
    return NMAX["c"] if avmodel.is_classical(raw) else NMAX["m"]


# ---- monitors (decide every call against avoiders of self.basis) --------------------------------
def want_level(av, n):
    raw = plain_basis(av.basis)
    if n > nmax_for(raw) or n < 0:
        CTX.count("oracle_skipped")
        return None, raw
    return avmodel.levels(raw, n)[n], raw


def aborted(exc):
    if isinstance(exc, monitor.InjectedFault):
        CTX.count("faults.aborted_operations")
        return True
    return False


def post_count(args, kwargs, res, exc):
    av, n = args[0], args[1]
    if aborted(exc):
        return
    want, raw = want_level(av, n)
    if want is None:
        return
    CTX.ev()
    if exc is not None or res != len(want):
        report(f"{av!r}.count({n}) = {res!r} ({exc!r}), avoiders: {len(want)}", known_for([raw]))


def done_of_length(args, kwargs, items, exhausted, exc):
    av, n = args[0], args[1]
    if aborted(exc):
        return
    want, raw = want_level(av, n)
    if want is None:
        return
    CTX.ev()
    got = [tuple(p) for p in items]
    bad = exc is not None or len(set(got)) != len(got) or not set(got) <= want or (exhausted and set(got) != want)
    if bad:
        report(f"{av!r}.of_length({n}) yielded {len(got)} ({len(set(got))} distinct, exhausted={exhausted}, exc={exc!r}); "
               f"avoiders: {len(want)}; extra={sorted(set(got) - want)[:5]} missing={sorted(want - set(got))[:5] if exhausted else '-'}", known_for([raw]))


def check_lenordered(av, got, raw, upto=None, count=None, exhausted=True, label=""):
    """got: list of tuples claimed to be the class in length order."""
    lens = [len(p) for p in got]
    bad = None
    if lens != sorted(lens):
        bad = "lengths not non-decreasing"
    elif len(set(got)) != len(got):
        bad = "repetition"
    else:
        N = nmax_for(raw)
        top = max(lens, default=-1)
        lv = avmodel.levels(raw, min(N, max(top, upto if upto is not None else 0)))
        for n in range(min(len(lv), (upto + 1) if upto is not None else top + 1)):
            here = {p for p in got if len(p) == n}
            if not here <= lv[n]:
                bad = f"non-members at length {n}: {sorted(here - lv[n])[:4]}"
                break
            complete_required = (upto is not None and exhausted) or (n < top)
            if complete_required and here != lv[n]:
                bad = f"length {n} incomplete: missing {sorted(lv[n] - here)[:4]}"
                break
        if bad is None and count is not None and exhausted:
            total = 0
            # expected size: min(count, |class|) as far as the bound lets us see
            sizes = [len(l) for l in avmodel.levels(raw, N)]
            if sum(sizes) >= count or sizes[-1] == 0 or 0 in sizes:
                # first(count) stops at the first empty level
                exp = 0
                for s in sizes:
                    if s == 0:
                        break
                    exp += s
                else:
                    exp = None if sum(sizes) < count else exp
                if exp is not None and len(got) != min(count, exp):
                    bad = f"expected {min(count, exp)} items, got {len(got)}"
    if bad:
        report(f"{av!r}.{label}: {bad}", known_for([raw]))


def done_up_to(args, kwargs, items, exhausted, exc):
    av, n = args[0], args[1]
    if aborted(exc):
        return
    raw = plain_basis(av.basis)
    if n > nmax_for(raw):
        CTX.count("oracle_skipped")
        return
    CTX.ev()
    if exc is not None:
        report(f"{av!r}.up_to_length({n}) raised {exc!r}", known_for([raw]))
        return
    check_lenordered(av, [tuple(p) for p in items], raw, upto=n, exhausted=exhausted, label=f"up_to_length({n})")


def done_first(args, kwargs, items, exhausted, exc):
    av, k = args[0], args[1]
    if aborted(exc):
        return
    raw = plain_basis(av.basis)
    got = [tuple(p) for p in items]
    if got and len(got[-1]) > nmax_for(raw):
        CTX.count("oracle_skipped")
        return
    CTX.ev()
    if exc is not None:
        report(f"{av!r}.first({k}) raised {exc!r}", known_for([raw]))
        return
    check_lenordered(av, got, raw, count=k, exhausted=exhausted, label=f"first({k})")


def post_enum(args, kwargs, res, exc):
    av, n = args[0], args[1]
    if aborted(exc):
        return
    raw = plain_basis(av.basis)
    if n > nmax_for(raw):
        return
    CTX.ev()
    want = [len(l) for l in avmodel.levels(raw, n)[: n + 1]]
    if exc is not None or res != want:
        report(f"{av!r}.enumeration({n}) = {res!r} ({exc!r}), want {want}", known_for([raw]))


def post_contains(args, kwargs, res, exc):
    av, other = args[0], args[1]
    if aborted(exc):
        return
    raw = plain_basis(av.basis)
    CTX.ev()
    if not isinstance(other, Perm):
        if res is not False:
            report(f"{other!r} in {av!r} = {res!r}: a non-permutation is not a member")
        return
    if len(other) > nmax_for(raw) + 2:
        CTX.count("oracle_skipped")
        return
    want = avmodel.member(raw, tuple(other))
    if exc is not None or res is not want:
        report(f"{tuple(other)} in {av!r} = {res!r} ({exc!r}), want {want}", known_for([raw]))


def post_subclass(args, kwargs, res, exc):
    av, other = args[0], args[1]
    if aborted(exc):
        return
    a, b = plain_basis(av.basis), plain_basis(other.basis)
    CTX.ev()
    mesh_involved = not (avmodel.is_classical(a) and avmodel.is_classical(b))
    known = known_for([a, b]) or ("is-subclass-mesh-basis" if mesh_involved else None)
    if exc is not None:
        report(f"{av!r}.is_subclass({other!r}) raised {exc!r}", known)
        return
    if not mesh_involved:
        # Av(A) <= Av(B)  iff  every element of B contains an element of A
        want = all(any(C.contains(q, p) for p in a) for q in b)
        CTX.count("subclass.true" if want else "subclass.false")
        if res is not want:
            report(f"{av!r}.is_subclass({other!r}) = {res!r}, want {want}", known)
        return
    N = min(nmax_for(a), nmax_for(b))
    la, lb = avmodel.levels(a, N), avmodel.levels(b, N)
    witness = next((t for n in range(N + 1) for t in sorted(la[n]) if t not in lb[n]), None)
    if witness is not None:
        CTX.count("subclass.mesh.refutable")
        if res is not False:
            report(f"{av!r}.is_subclass({other!r}) = {res!r} but {witness} is in the first class only", known)
    else:
        CTX.count("subclass.mesh.undecided_within_bound")
        if res is not True:
            CTX.count("subclass.mesh.false_unconfirmed")


def post_ensure(args, kwargs, res, exc):
    """Hook that runs inside Av._get_level's critical section: every built level is the avoider set."""
    av = args[0]
    if exc is not None:
        return
    try:
        cache = av.cache
        raw = plain_basis(av.basis)
        top = min(len(cache) - 1, nmax_for(raw))
        lv = avmodel.levels(raw, top)
        for n in range(top + 1):
            CTX.count("hook.levels_checked")
            keys = set(map(tuple, cache[n].keys()))
            if keys != lv[n] or len(keys) != len(cache[n]):
                report(f"after _ensure_level({args[1]}) level {n} of {av!r} holds {len(cache[n])} keys, avoiders: {len(lv[n])}; "
                       f"extra={sorted(keys - lv[n])[:4]} missing={sorted(lv[n] - keys)[:4]}", known_for([raw]))
                break
        CTX.ev()
        CTX.seen("level-cache states observed at the hook (basis, level sizes, which levels are compacted)",
                 (avmodel.key_of(raw), tuple(len(l) for l in cache), tuple(all(v is None for v in l.values()) for l in cache)))
        if len(cache) <= args[1]:
            report(f"_ensure_level({args[1]}) left only {len(cache)} levels")
    except (AttributeError, TypeError) as err:  # representation changed: hook not applicable
        CTX.count("hook.unusable")


def setup(ctx):
    global CTX, MON
    CTX = ctx
    if ctx.tier == "thorough":
        NMAX.update(c=8, m=7)
    MON = m = monitor.Monitors(ctx)
    m.wrap(Av, "count", post_count)
    m.wrap_gen(Av, "of_length", done_of_length)
    m.wrap_gen(Av, "up_to_length", done_up_to)
    m.wrap_gen(Av, "first", done_first)
    m.wrap(Av, "enumeration", post_enum)
    m.wrap(Av, "__contains__", post_contains)
    m.wrap(Av, "is_subclass", post_subclass)
    m.wrap(Av, "_ensure_level", post_ensure)
    global FAULTS
    FAULTS = monitor.FaultInjector(monitor.class_code_objects(Av, "permset.py"))


def teardown(ctx):
    FAULTS.close()
    MON.uninstall()


# ---- the replayable history check ------------------------------------------------------------------
def build(raw_enc):
    return [dec(q) for q in raw_enc]


def chk_history(ctx, raw_enc, ops):
    """raw_enc: encoded raw basis; ops: list of operations (see run_ops)."""
    CASE[0] = ("history", [raw_enc, ops])
    try:
        run_ops(ctx, raw_enc, ops)
    finally:
        CASE[0] = None


def expect_value_error(fn, what):
    CTX.ev()
    try:
        fn()
    except ValueError:
        return
    except Exception as exc:
        report(f"{what}: expected ValueError, got {exc!r}")
        return
    report(f"{what}: expected ValueError, nothing raised")


def run_ops(ctx, raw_enc, ops):
    patts = build(raw_enc)
    raw = [plain(q) for q in patts]
    known = known_for([raw])
    N = nmax_for(raw)
    lv = avmodel.levels(raw, N)
    infinite = all(len(l) > 0 for l in lv)
    handles = [Av(patts)]
    iters = []  # (kind, arg, iterator, items, opened_at_builds)
    builds = [0]
    jumped = resumed = False
    last_len = -1

    def av():
        return handles[-1]

    for op in ops:
        kind = op[0]
        if kind == "count":
            n = op[1]
            got = av().count(n)
            ctx.ev()
            if got != len(lv[n]):
                report(f"count({n}) = {got}, avoiders of raw basis: {len(lv[n])}", known)
            jumped |= n < last_len
            last_len = n
        elif kind == "of_length":
            n = op[1]
            got = [tuple(p) for p in av().of_length(n)]
            ctx.ev()
            if sorted(got) != sorted(lv[n]):
                report(f"of_length({n}) gives {len(got)} perms, avoiders of raw basis: {len(lv[n])}", known)
            jumped |= n < last_len
            last_len = n
        elif kind == "up_to":
            n = op[1]
            got = [tuple(p) for p in av().up_to_length(n)]
            ctx.ev()
            want = [t for l in lv[: n + 1] for t in sorted(l)]
            if sorted(got) != sorted(want) or [len(g) for g in got] != sorted(len(g) for g in got):
                report(f"up_to_length({n}) gives {len(got)} perms, want {len(want)} in length order", known)
        elif kind == "first":
            k = op[1]
            if infinite:  # never force the library beyond the bound the oracle can follow
                k = min(k, sum(len(l) for l in lv))
            got = [tuple(p) for p in av().first(k)]
            ctx.ev()
            # model: concatenate levels until the first empty one
            want_n = 0
            cut = None
            for n, l in enumerate(lv):
                if not l:
                    cut = n
                    break
                want_n += len(l)
            decidable = cut is not None or want_n >= k
            if decidable and len(got) != min(k, want_n):
                report(f"first({k}) yields {len(got)}, want {min(k, want_n)}", known)
            if len(set(got)) != len(got) or any(len(g) <= N and g not in lv[len(g)] for g in got):
                report(f"first({k}) yields repeated or foreign permutations", known)
        elif kind == "enum":
            n = op[1]
            got = av().enumeration(n)
            ctx.ev()
            if got != [len(l) for l in lv[: n + 1]]:
                report(f"enumeration({n}) = {got}, want {[len(l) for l in lv[: n + 1]]}", known)
        elif kind == "in":
            t = tuple(op[1])
            got = Perm(t) in av()
            ctx.ev()
            want = avmodel.member(raw, t)
            if got is not want:
                report(f"{t} in class = {got}, want {want}", known)
            jumped |= len(t) < last_len
            last_len = len(t)
        elif kind == "in_sweep":
            n = min(op[1], N)
            for t in C.all_perms(n):
                got = Perm(t) in av()
                ctx.ev()
                if got is not (t in lv[n]):
                    report(f"{t} in class = {got}, want {t in lv[n]} (asked on a handle whose cache is shallower than the permutation)", known)
                    break
            ctx.count("op.in_sweep")
        elif kind == "cli_count":
            # `permtools count <basis>` through the argument parser; the endless command is stopped from the output side
            if raw and avmodel.is_classical(raw) and all(1 <= len(q) <= 9 for q in raw):
                from ..cliutil import run_main

                k = min(op[1], N + 1)
                text = "_".join("".join(str(v + 1) for v in q) for q in raw)
                out, _code = run_main(["count", text], stop_after_commas=k)
                terms = [t.strip() for t in out.split("\n", 1)[-1].split(",") if t.strip()]
                ctx.ev()
                ctx.count("op.cli_count")
                if terms != [str(len(l)) for l in lv[:k]]:
                    report(f"`permtools count {text}` printed {terms}, avoiders of the raw basis: {[len(l) for l in lv[:k]]}", known)
        elif kind == "in_other":
            for junk in (tuple(op[1]), list(op[1]), "012", 3, None):
                ctx.ev()
                if (junk in av()) is not False:
                    report(f"{junk!r} (not a Perm) reported as member")
        elif kind == "subclass":
            other_patts = build(op[1])
            other = Av(other_patts)
            av().is_subclass(other)
            other.is_subclass(av())
            av().is_subclass(av())
        elif kind == "fault":
            # a query aborted by an exception arriving at the k-th statement of the class's code (crash point);
            # whatever state it leaves behind, every later answer must still be right
            _, what, arg, k = op
            FAULTS.arm(k)
            try:
                if what == "count":
                    av().count(arg)
                elif what == "of_length":
                    list(av().of_length(arg))
                elif what == "up_to":
                    list(av().up_to_length(arg))
                elif what == "in":
                    Perm(arg) in av()
                ctx.count("faults.not_reached")
            except monitor.InjectedFault:
                ctx.count("faults.injected")
            finally:
                FAULTS.disarm()
        elif kind == "clear":
            Av.clear_cache()
            ctx.count("op.clear")
        elif kind == "rehandle":
            # a new handle from an equal basis, given in another order / container / with repetitions
            variant = op[1] % 4
            ps = list(patts)
            if variant == 1:
                ps = ps[::-1] + ps[:1]
            elif variant == 2:
                ps = tuple(ps)
            h = Av(ps) if variant != 3 else (Av.from_iterable(iter(ps)) if op[1] % 8 == 3 else Av(q for q in ps))  # given lazily
            handles.append(h)
            ctx.count("op.rehandle")
        elif kind == "old_handle":
            handles.append(handles[op[1] % len(handles)])
        elif kind == "other":
            other = Av(build(op[1]))
            other.count(op[2])
            if op[2] > 1:
                list(itertools.islice(other.of_length(op[2] - 1), 3))
        elif kind == "flood":
            # many OTHER classes come into being while this one (and its half-consumed iterators) is still held
            import random as _random

            r2 = _random.Random(op[2])
            made = 0
            while made < op[1]:
                k = r2.choice([4, 5, 5, 6])
                try:
                    Av([Perm(r2.sample(range(k), k)), Perm(r2.sample(range(5), 5))]).count(r2.choice([0, 1, 2]))
                    made += 1
                except ValueError:
                    pass
            ctx.count("op.flood_of_other_classes")
        elif kind == "iter_open":
            what, arg = op[1], op[2]
            if what == "first" and infinite:
                arg = min(arg, sum(len(l) for l in lv))
            it = {"of_length": av().of_length, "up_to": av().up_to_length, "first": av().first}[what](arg)
            iters.append([what, arg, iter(it), [], len(av().cache)])
        elif kind == "iter_drain" and iters:
            ent = iters[op[1] % len(iters)]
            ent[3].extend(tuple(p) for p in ent[2])
            ctx.count("op.iter_drained_midway")
        elif kind == "iter_adv" and iters:
            ent = iters[op[1] % len(iters)]
            for _ in range(op[2]):
                nxt = next(ent[2], None)
                if nxt is None:
                    break
                ent[3].append(tuple(nxt))
            if len(av().cache) > ent[4]:
                resumed = True
                ctx.count("op.iter_resumed")
    # drain every iterator that is still open and judge the complete listings
    for what, arg, it, items, _ in iters:
        items.extend(tuple(p) for p in it)
        ctx.ev()
        if what == "of_length":
            if sorted(items) != sorted(lv[arg]):
                report(f"iterator of_length({arg}) resumed later gave {len(items)} perms, want {len(lv[arg])}", known)
        elif what == "up_to":
            want = [t for l in lv[: arg + 1] for t in l]
            if sorted(items) != sorted(want) or [len(g) for g in items] != sorted(len(g) for g in items):
                report(f"iterator up_to_length({arg}) resumed later gave {len(items)} perms, want {len(want)}", known)
        else:
            if len(set(items)) != len(items) or any(len(g) <= N and g not in lv[len(g)] for g in items) or \
                    [len(g) for g in items] != sorted(len(g) for g in items):
                report(f"iterator first({arg}) resumed later is inconsistent", known)
    # closing round: whatever the iterators did when they were drained, the class must still answer correctly
    for n in range(N + 1):
        ctx.ev()
        got = av().count(n)
        if got != len(lv[n]):
            report(f"closing round: count({n}) = {got}, avoiders of raw basis: {len(lv[n])}", known)
    t = tuple(ctx.rng.sample(range(N), N))
    ctx.ev()
    if (Perm(t) in av()) is not avmodel.member(raw, t):
        report(f"closing round: {t} in class disagrees with the definition", known)
    ctx.count("histories.classical" if avmodel.is_classical(raw) else "histories.mesh")
    if infinite and (jumped or resumed):
        ctx.nt((avmodel.key_of(raw), repr(ops)))


def chk_construct(ctx, raw_enc):
    """constructor edge cases: empty basis / basis {eps} are rejected, Av(x) is Av(equal x)."""
    CASE[0] = ("construct", [raw_enc])
    try:
        patts = build(raw_enc)
        if not patts or any(isinstance(q, Perm) and len(q) == 0 for q in patts):
            expect_value_error(lambda: Av(patts), f"Av({patts!r})")
            return
        a, b = Av(patts), Av(list(reversed(patts)))
        ctx.ev()
        if a is not b:
            report("Av of the same patterns in reverse order is a different object")
    finally:
        CASE[0] = None


CHECKS = {"history": chk_history, "construct": chk_construct}


# ---- workload ------------------------------------------------------------------------------------------
def rand_perm(rng, n):
    return rng.sample(range(n), n)


def rand_mesh(rng, kmax=3):
    k = rng.randint(1, kmax)
    p = rand_perm(rng, k)
    dens = rng.choice([0.0, 0.1, 0.25, 0.5])
    S = [(x, y) for x in range(k + 1) for y in range(k + 1) if rng.random() < dens]
    c = rng.randrange(6)
    if c == 0:
        return enc(VincularPatt(Perm(p), [x for x in range(k + 1) if rng.random() < 0.3]))
    if c == 1:
        return enc(CovincularPatt(Perm(p), [x for x in range(k + 1) if rng.random() < 0.3]))
    if c == 2:
        return enc(BivincularPatt(Perm(p), [x for x in range(k + 1) if rng.random() < 0.25], [x for x in range(k + 1) if rng.random() < 0.25]))
    return enc(MeshPatt(Perm(p), S))


def rand_ops(rng, raw_plain, N, nops):
    ops = []
    other_pool = [[[0, 1, 2]], [[0, 2, 1]], [[1, 0]], [[0, 1]], [[2, 1, 0], [0, 1, 2, 3]], [[1, 3, 0, 2], [2, 0, 3, 1]], [[0]]]
    kinds = ["count", "of_length", "up_to", "first", "enum", "in", "in_other", "fault", "clear", "rehandle", "old_handle", "other", "iter_open", "iter_adv", "iter_drain", "cli_count"]
    weights = [16, 14, 6, 8, 5, 11, 2, 6, 5, 4, 2, 5, 12, 11, 4, 3]
    for kind in rng.choices(kinds, weights, k=nops):
        n = rng.choice([0, 1, 2, N, N - 1, rng.randint(0, N)])
        if kind in ("count", "of_length"):
            ops.append([kind, n])
        elif kind == "up_to":
            ops.append(["up_to", rng.randint(0, N - 1)])
        elif kind == "first":
            ops.append(["first", rng.choice([0, 1, 2, 5, 17, 60, 400])])
        elif kind == "enum":
            ops.append(["enum", rng.randint(0, N)])
        elif kind == "in":
            ops.append(["in", rand_perm(rng, rng.choice([N, N, N - 1, rng.randint(0, N)]))])
        elif kind == "in_other":
            ops.append(["in_other", rand_perm(rng, 3)])
        elif kind == "cli_count":
            ops.append(["cli_count", rng.randint(1, N + 1)])
        elif kind == "fault":
            what = rng.choice(["count", "count", "of_length", "up_to", "in"])
            arg = rand_perm(rng, rng.choice([N, N - 1])) if what == "in" else rng.choice([N, N, N - 1, rng.randint(1, N)])
            ops.append(["fault", what, arg, rng.choice([1, 2, 3, 5, 8, 13, 21, 34, 55, 89, 144, 233, 377, 610, 987, rng.randint(1, 3000)])])
            ops.append(["count", rng.randint(0, N)])
        elif kind == "clear":
            ops.append(["clear"])
        elif kind == "rehandle":
            ops.append(["rehandle", rng.randrange(8)])
        elif kind == "old_handle":
            ops.append(["old_handle", rng.randrange(5)])
        elif kind == "other":
            ops.append(["other", rng.choice(other_pool), rng.randint(0, N)])
        elif kind == "iter_open":
            what = rng.choice(["of_length", "up_to", "first"])
            arg = rng.randint(0, N) if what == "of_length" else rng.randint(0, N - 1) if what == "up_to" else rng.choice([3, 10, 50, 200])
            ops.append(["iter_open", what, arg])
        elif kind == "iter_drain":
            ops.append(["iter_drain", rng.randrange(8)])
            ops.append(["count", rng.choice([N, N - 1])])
        else:
            ops.append(["iter_adv", rng.randrange(8), rng.choice([1, 2, 5, 30])])
    return ops


def plan(tier, seed):
    specs = []
    small = [list(p) for k in (1, 2, 3) for p in itertools.permutations(range(k))]
    singles = [[p] for p in small] + [[list(p)] for p in itertools.permutations(range(4))]
    pairs = [[a, b] for a, b in itertools.combinations(small, 2)]
    exh = singles + pairs
    parts = 8
    for part in range(parts):
        specs.append({"name": f"exh-{part}", "kind": "bases", "bases": exh[part::parts], "hist": 3 if tier == "quick" else 8})
    nrand_c, nrand_m = (480, 160) if tier == "quick" else (4800, 1600)
    for i in range(16):
        specs.append({"name": f"rand-{i}", "kind": "rand", "classical": nrand_c // 16, "mesh": nrand_m // 16, "hist": 1 if tier == "quick" else 4})
    specs.append({"name": "subclass", "kind": "subclass", "count": 300 if tier == "quick" else 3000})
    return specs


def run(ctx, spec):
    rng = ctx.rng
    if spec["kind"] == "bases":
        for raw_enc in spec["bases"]:
            N = NMAX["c"]
            for _ in range(spec["hist"]):
                Av.clear_cache()
                ops = rand_ops(rng, None, N, rng.randint(6, 14))
                chk_history(ctx, raw_enc, ops)
            chk_construct(ctx, raw_enc)
        ctx.sample({"basis": raw_enc, "ops": ops})
    elif spec["kind"] == "rand":
        for _ in range(spec["classical"]):
            raw_enc = []
            for _ in range(rng.randint(1, 4)):
                raw_enc.append(rand_perm(rng, rng.choice([1, 2, 3, 3, 4, 4, 5, 5])))
            if rng.random() < 0.3:
                raw_enc.append(list(rng.choice(raw_enc)))  # repetition
            if rng.random() < 0.2:
                raw_enc.append(rand_perm(rng, NMAX["c"] - rng.randint(0, 1)))  # element at the top levels
            if all(len(q) == 0 for q in raw_enc):
                continue
            for _ in range(spec["hist"]):
                if rng.random() < 0.7:
                    Av.clear_cache()
                chk_history(ctx, raw_enc, rand_ops(rng, None, NMAX["c"], rng.randint(6, 14)))
        for _ in range(spec["mesh"]):
            raw_enc = [rand_mesh(rng) for _ in range(rng.randint(1, 3))]
            if rng.random() < 0.4:
                raw_enc.append(rand_perm(rng, rng.randint(2, 4)))
            if rng.random() < 0.06:
                raw_enc.append(enc(MeshPatt(Perm(), [(0, 0)])))
                ctx.count("k5_inputs")
            if rng.random() < 0.12:
                # every element a mesh pattern WITHOUT shading (same class as the classical patterns, other object kind)
                raw_enc = [enc(MeshPatt(Perm(rng.sample(range(k), k)), [])) for k in (rng.randint(1, 4) for _ in range(rng.randint(1, 3)))]
                ctx.count("bases.unshaded_mesh_only")
            elif rng.random() < 0.12:
                # a shaded point next to longer elements
                cells = [[0, 0], [0, 1], [1, 0], [1, 1]]
                raw_enc = [{"cls": "MeshPatt", "p": [0], "s": sorted(rng.sample(cells, rng.randint(1, 4)))}] + [rand_perm(rng, rng.randint(2, 3)) for _ in range(rng.randint(1, 2))]
                ctx.count("bases.shaded_point_plus_longer")
            rng.shuffle(raw_enc)
            for _ in range(spec["hist"]):
                if rng.random() < 0.7:
                    Av.clear_cache()
                chk_history(ctx, raw_enc, rand_ops(rng, None, NMAX["m"], rng.randint(5, 11)))
            # long members asked for while only a few levels exist (mesh classes need not be closed under prefixes)
            Av.clear_cache()
            chk_history(ctx, raw_enc, [["count", rng.choice([0, 1, 2, 2, 3])], ["in_sweep", 4], ["in_sweep", 5], ["count", 3], ["in_sweep", 5]])
        # a class built to some depth, an iterator left open, then hundreds of other classes, then the held objects are asked again
        for _ in range(2):
            raw_enc = [rand_perm(rng, rng.choice([3, 3, 4])) for _ in range(rng.randint(1, 2))]
            chk_history(ctx, raw_enc, [["count", 4], ["iter_open", "up_to", 5], ["iter_adv", 0, 3], ["flood", rng.choice([300, 530, 1100]), rng.randrange(10 ** 9)],
                                       ["count", 5], ["of_length", 3], ["iter_drain", 0], ["in", rand_perm(rng, 5)], ["up_to", 4], ["old_handle", 0], ["count", 6]])
        chk_construct(ctx, [])
        chk_construct(ctx, [[]])
        chk_construct(ctx, [[], [0, 1]])
        ctx.sample({"basis": raw_enc, "ops": "random"})
    else:
        pool = [list(p) for k in (1, 2, 3, 4) for p in itertools.permutations(range(k))]
        for _ in range(spec["count"]):
            a = rng.sample(pool, rng.randint(1, 3))
            if rng.random() < 0.5:
                # make b's elements extensions of a's, so the positive branch is exercised
                b = []
                for q in rng.sample(a, rng.randint(1, len(a))):
                    q = list(q)
                    for _ in range(rng.randint(0, 2)):
                        pos, val = rng.randint(0, len(q)), rng.randint(0, len(q))
                        q = [v + (v >= val) for v in q[:pos]] + [val] + [v + (v >= val) for v in q[pos:]]
                    b.append(q)
            else:
                b = rng.sample(pool, rng.randint(1, 3))
            if rng.random() < 0.15:
                b.append(rand_mesh(rng))
            chk_history(ctx, a, [["subclass", b], ["count", 4], ["subclass", b]])
