"""C16 The 'finitely many simples' verdict matches the class's actual simples."""
import argparse
import contextlib
import io
import itertools
import os
import tempfile

from permuta import Av, Perm
from permuta.enumeration_strategies.finitely_many_simples import FinitelyManySimplesStrategy
from permuta.permutils.pin_words import PinWords

from .. import avmodel, monitor
from ..oracle import classes as K
from ..oracle import classical as C
from ..oracle import families as F
from ..oracle import geometry as G
from ..oracle import pins as P

ID = "C16"
RULE = (
    "Recorders on PinWords.has_finite_alternations / has_finite_wedges_type_1 / _2 / has_finite_special_simples / "
    "has_finite_simples, Av.has_finitely_many_simples and FinitelyManySimplesStrategy.applies. Oracle A (Schmerl-Trotter): the "
    "simple permutations of the class are counted up to length N by enumeration + the interval definition of simplicity: a "
    "verdict 'infinitely many' with two consecutive lengths >= 3 without a simple is a violation; 'finitely many' is confirmed "
    "when two consecutive empty lengths are seen, else counted unconfirmed. Oracle B: explicit formulas for parallel alternations "
    "and wedge simples of type 1/2 under the 8 symmetries (no table of the repository): each of the three table tests must be "
    "true iff every orientation's long explicit member contains a basis element, and a verdict 'finitely many' requires that in "
    "every family and orientation; plus pin sequences through the exact pin placement. Metamorphic: utility function, class "
    "method, strategy and command line agree; invariance under the 8 symmetries, order, repetition, use_db, check_all. "
    "Non-trivial = distinct bases (up to the listed variations) with a confirmed verdict."
)
ASSUMPTIONS = ["enumeration bound N=9 (10 thorough); lengths above the C02 oracle bound are enumerated by the library and checked for downward closure only",
               "compression property of the three families (x embeds in a member iff in the member of length 2|x|+4), validated against the shipped tables at design time"]
REQUIRED = ["env.shards_with_other_hashseed", "calls.PinWords.has_finite_simples", "calls.PinWords.has_finite_alternations", "calls.PinWords.has_finite_wedges_type_1",
            "calls.PinWords.has_finite_wedges_type_2", "calls.Av.has_finitely_many_simples", "calls.FinitelyManySimplesStrategy.applies", "verdict.whole_checked", "verdict.all_nonpin_bases", "nonpin.bases", "history.elementwise_images",
            "verdict.finite", "verdict.infinite", "oracleA.infinite_checked", "oracleA.finite_confirmed", "oracleB.tables_checked",
            "oracleB.finite_families_checked", "symmetry.checked", "cli.checked", "oracleB.table_probes", "separating_bases", "history.enumeration_depths"]
MIN_NONTRIVIAL = 20
CTX = None
MON = None
NN = {"v": 9}


def report(check, args, detail):
    CTX.fail(check, args, detail)


def fast_is_simple(p):
    n = len(p)
    for s in range(n):
        lo = hi = p[s]
        for e in range(s + 1, n):
            v = p[e]
            lo, hi = (v if v < lo else lo), (v if v > hi else hi)
            length = e - s + 1
            if length < n and hi - lo == length - 1:
                return False
    return True


def simples_per_length(ts, N):
    """number of simple permutations of Av(ts) for each length <= N"""
    No = min(N, 7)
    lv = [set(l) for l in avmodel.levels(ts, No)]
    if N > No:
        av = Av([Perm(t) for t in ts])
        for n in range(No + 1, N + 1):
            level = {tuple(p) for p in av.of_length(n)}
            # sanity of the library's enumeration beyond the oracle bound: closed downwards, avoids the basis on a sample
            prev = lv[n - 1]
            for t in itertools.islice(level, 0, None, max(1, len(level) // 200)):
                if t[:-1] and C.std(t[:-1]) not in prev:
                    raise AssertionError(f"library level {n} of Av({ts}) is not closed downwards at {t}")
            lv.append(level)
    return [sum(1 for t in l if fast_is_simple(t)) for l in lv]


def as_ts(basis):
    try:
        ts = [tuple(b) for b in basis]
    except TypeError:
        return None
    return ts if ts and all(C.is_perm(t) and len(t) for t in ts) else None


def post_table(name, family):
    def post(args, kwargs, res, exc):
        ts = as_ts(args[0])
        if ts is None:
            return
        CTX.ev()
        CTX.count("oracleB.tables_checked")
        want = F.finite_for_family(family, ts)
        if exc is not None or res is not want:
            report("basis", [[list(t) for t in ts]], f"{name}({ts}) = {res!r} ({exc!r}); by the explicit family formulas every orientation's long member "
                   f"contains a basis element: {want}")
    return post


def setup(ctx):
    global CTX, MON
    CTX = ctx
    if ctx.tier == "thorough":
        NN["v"] = 10
    MON = m = monitor.Monitors(ctx)
    m.wrap(PinWords, "has_finite_alternations", post_table("has_finite_alternations", "parallel_alternation"))
    m.wrap(PinWords, "has_finite_wedges_type_1", post_table("has_finite_wedges_type_1", "wedge_type_1"))
    m.wrap(PinWords, "has_finite_wedges_type_2", post_table("has_finite_wedges_type_2", "wedge_type_2"))
    m.wrap(PinWords, "has_finite_simples", post_simples)
    m.wrap(PinWords, "has_finite_special_simples", post_special)
    m.wrap(Av, "has_finitely_many_simples", lambda a, k, r, e: None)
    m.wrap(FinitelyManySimplesStrategy, "applies", lambda a, k, r, e: None)
    ctx._tmp = tempfile.mkdtemp(prefix="vf-c16-")
    ctx._cwd = os.getcwd()
    os.chdir(ctx._tmp)


def is_pin_perm(t):
    """every permutation of length <= 5 is the permutation of some pin word; from length 6 on decided by enumeration"""
    return len(t) <= 5 or tuple(t) in P.pin_perms(len(t))


def oscillation(n):
    """the increasing oscillation of length n (a simple permutation for n >= 4): 1 3 0 5 2 7 4 ..."""
    seq = [1, 3]
    k = 0
    while len(seq) < n + 2:
        seq.extend((2 * k, 2 * k + 5))
        k += 1
    return C.std(seq[:n])


def post_simples(args, kwargs, res, exc):
    """the verdict as a whole: the special-simples part by the family formulas on the FULL basis as handed over, and
    (i) a basis without any pin permutation leaves every pin permutation in the class - infinitely many simples;
    (ii) if a long oscillation (in any of its eight images) avoids the basis, so do all longer ones - infinitely many simples;
    (iii) otherwise the pin part as the library's own automaton decides it (that automaton is judged by C15)"""
    try:
        ts = as_ts(list(args[1]))
    except TypeError:
        return
    if ts is None or any(len(t) > 7 for t in ts) or kwargs.get("dfa") is not None or len(args) > 4:
        return
    CTX.ev()
    CTX.count("verdict.whole_checked")
    if exc is not None:
        report("basis", [[list(t) for t in ts]], f"has_finite_simples({ts}) raised {exc!r}")
        return
    want, why = expected_verdict(tuple(sorted(set(ts))))
    if res is not want:
        report("basis", [[list(t) for t in ts]], f"has_finite_simples({ts}) = {res!r}, want {want}: {why}")


import functools  # noqa: E402


@functools.lru_cache(maxsize=20000)
def expected_verdict(ts):
    ts = list(ts)
    special = all(F.finite_for_family(f, ts) for f in F.FAMILIES)
    k = max(len(t) for t in ts)
    osc = oscillation(4 * k + 4)
    free_osc = [name for name, mat in G.SYMS.items() if not any(C.contains_bt(G.act_perm(mat, osc), t) for t in ts)]
    if not special:
        want, why = False, "a family of special simples is unbounded (family formulas)"
    elif not any(is_pin_perm(t) for t in ts):
        want, why = False, "no basis element is a pin permutation, so every pin permutation (e.g. every oscillation) is in the class"
        CTX.count("verdict.all_nonpin_bases")
    elif free_osc:
        want, why = False, f"the {free_osc[0]} image of the oscillation of length {4 * k + 4} avoids the basis, hence all longer ones do"
    else:
        with monitor.GUARD:
            want = bool(PinWords.has_finite_pinperms([Perm(t) for t in ts]))
        why = "family formulas on the full basis, pin part by the automaton"
    return want, why


def post_special(args, kwargs, res, exc):
    ts = as_ts(args[1])
    if ts is None:
        return
    CTX.ev()
    want = all(F.finite_for_family(f, ts) for f in F.FAMILIES)
    if exc is not None or res is not want:
        report("basis", [[list(t) for t in ts]], f"has_finite_special_simples({ts}) = {res!r} ({exc!r}), family formulas give {want}")


def teardown(ctx):
    MON.uninstall()
    os.chdir(ctx._cwd)
    import shutil

    shutil.rmtree(ctx._tmp, ignore_errors=True)


def cli_simple(text):
    from permuta import cli

    if len(text) % 2:  # through the argument parser and the sub-command table
        from ..cliutil import run_main

        return run_main(["simple", text])[0]
    buf = io.StringIO()
    with contextlib.redirect_stdout(buf):
        cli.has_finitely_many_simples(argparse.Namespace(basis=text))
    return buf.getvalue()


def chk_basis(ctx, basis, enumerate_simples=True):
    ts = [tuple(b) for b in basis]
    B = [Perm(t) for t in ts]
    util = PinWords.has_finite_simples(B)
    meth = Av(B).has_finitely_many_simples()
    strat = FinitelyManySimplesStrategy(B).applies()
    easy = K.is_finite(ts) or K.is_polynomial(ts)
    ctx.ev()
    ctx.count("verdict.finite" if meth else "verdict.infinite")
    # the four offers of the decision agree (the class method may additionally short-cut finite / polynomial classes)
    if strat is not util or meth is not (util or easy) or (easy and not util):
        report("basis", [basis], f"the offers disagree: PinWords.has_finite_simples={util}, Av.has_finitely_many_simples={meth}, strategy.applies={strat}, "
               f"finite-or-polynomial={easy}")
    if all(1 <= len(t) <= 9 for t in ts):
        out = cli_simple("_".join("".join(str(v + 1) for v in t) for t in ts))
        ctx.ev()
        ctx.count("cli.checked")
        if ("finitely many simples" in out and "infinitely" not in out) is not meth:
            report("basis", [basis], f"`permtools simple` printed {out!r}, class method says {meth}")
    # variations that must not matter
    variants = {"reversed": B[::-1], "repeated": B + B[:1], "tuple": tuple(B), "set": set(B), "frozenset": frozenset(B)}
    if len(B) >= 3:  # every other listing order (lengths interleaved, longest first, ...)
        orders = [o for o in itertools.permutations(range(len(B))) if list(o) != list(range(len(B)))]
        for o in (orders if len(orders) <= 5 else ctx.rng.sample(orders, 5)):
            variants[f"in the order {o}"] = [B[i] for i in o]
        ctx.count("variants.other_orders")
    for name, var in variants.items():
        ctx.ev()
        if PinWords.has_finite_simples(var) is not util:
            report("basis", [basis], f"verdict changes when the basis is given {name}")
    # history: the verdict of the (shared) class object must not depend on how far it has been enumerated
    Av.clear_cache()
    obj = Av(B)
    for depth in (0, 3, 4, 5, 6, 7, 6, 8):
        obj.count(depth)
        ctx.ev()
        ctx.count("history.enumeration_depths")
        if obj.has_finitely_many_simples() is not meth or Av(B).has_finitely_many_simples() is not meth:
            report("basis", [basis], f"Av.has_finitely_many_simples() changes to {not meth} after the class was enumerated to length {depth}")
            break
    fresh = PinWords.make_dfa_for_basis(B)
    for kw in ({"dfa": fresh}, {"dfa": fresh, "check_all": True}, {"use_db": True, "dfa": fresh}):
        ctx.ev()
        if PinWords.has_finite_simples(B, **kw) is not util:
            report("basis", [basis], f"verdict changes when the automaton is supplied by the caller ({sorted(kw)})")
    for kw in ({"use_db": True}, {"check_all": True}, {"use_db": True, "check_all": True}):
        PinWords.load_dfa_for_perm.cache_clear()
        ctx.ev()
        if PinWords.has_finite_simples(B, **kw) is not util:
            report("basis", [basis], f"verdict changes with {kw}")
    for sname, m in G.SYMS.items():
        img = [Perm(G.act_perm(m, t)) for t in ts]
        ctx.ev()
        ctx.count("symmetry.checked")
        if PinWords.has_finite_simples(img) is not util or Av(img).has_finitely_many_simples() is not meth:
            report("basis", [basis], f"verdict changes under the symmetry {sname}")
    # history: bases that are images of this one ELEMENT BY ELEMENT (each element under its own symmetry) are different classes
    # in general; they are asked right after it in the same process (each verdict judged by the monitor on its own)
    if len(ts) >= 2:
        mats = list(G.SYMS.values())
        for _ in range(2):
            mixed = [Perm(ts[0])] + [Perm(G.act_perm(ctx.rng.choice(mats), t)) for t in ts[1:]]
            PinWords.has_finite_simples(mixed)
            Av(mixed).has_finitely_many_simples()
            ctx.count("history.elementwise_images")
        PinWords.has_finite_simples(B)
    # Oracle B (ii): 'finitely many' requires every family, in every orientation, to meet the basis
    if meth:
        ctx.count("oracleB.finite_families_checked")
        for fam in F.FAMILIES:
            ctx.ev()
            if not F.finite_for_family(fam, ts):
                report("basis", [basis], f"verdict 'finitely many simples' but arbitrarily long members of the family {fam} avoid the basis")
        # pin sequences: the avoiding M-words must die out (bounded consequence, no alarm when the bound is too small)
        alive = [sum(1 for w in P.m_words(n) if not any(C.contains(P.perm_of_word(P.m_to_sp(w)), t) for t in ts)) for n in (7, 8)]
        ctx.count("oracleB.pin_sequences_extinct_by_8" if alive[-1] == 0 else "oracleB.pin_sequences_unconfirmed_by_8")
    # Oracle A: the actual simple permutations
    if enumerate_simples:
        N = NN["v"] if sum(1 for t in ts if len(t) <= 4) >= 1 and len(ts) >= 1 else NN["v"] - 1
        if len(ts) == 1 and len(ts[0]) >= 5:
            N = NN["v"] - 1
        sim = simples_per_length(ts, N)
        gaps = [n for n in range(3, N) if sim[n] == 0 and sim[n + 1] == 0]
        ctx.ev()
        if not meth:
            ctx.count("oracleA.infinite_checked")
            if gaps:
                report("basis", [basis], f"verdict 'infinitely many simples' but the class has no simple permutation of lengths {gaps[0]} and {gaps[0] + 1} "
                       f"(simples per length: {sim})")
            else:
                ctx.nt(("inf", tuple(sorted(ts))))
        else:
            if gaps:
                ctx.count("oracleA.finite_confirmed")
                ctx.nt(("fin", tuple(sorted(ts))))
            else:
                ctx.count("oracleA.finite_unconfirmed_within_bound")
        ctx.sample({"basis": basis, "verdict_finite": meth, "simples_per_length": sim}) if ctx.rng.random() < 0.2 else None


def orientation_classes():
    return [(fam, mem) for fam in F.FAMILIES for mem in F.long_members(fam, 5)]


def separating_basis(target):
    """for every other (family, orientation) an element inside it but outside the target's class: a class that contains the
    target's arbitrarily long simples and, by construction, meets every other family/orientation"""
    _tfam, tmem = target
    basis = []
    for fam, mem in orientation_classes():
        if (fam, mem) == target:
            continue
        found = None
        for k in range(2, 6):
            for y in itertools.permutations(range(k)):
                if C.contains(mem, y) and not C.contains(tmem, y):
                    found = y
                    break
            if found:
                break
        if found is None:
            return None
        if found not in basis:
            basis.append(found)
    return basis


def chk_table_probe(ctx, family_index, orientation_index):
    """membership of every x in S_1..S_5 in one orientation's class, probed through the real table functions"""
    fams = list(F.FAMILIES)
    fam = fams[family_index]
    members = F.long_members(fam, 5)
    tmem = members[orientation_index % len(members)]
    cover = []
    for mem in members:
        if mem == tmem:
            continue
        y = next((y for k in range(2, 6) for y in itertools.permutations(range(k)) if C.contains(mem, y) and not C.contains(tmem, y)), None)
        if y is not None:
            cover.append(y)
    fn = {"parallel_alternation": PinWords.has_finite_alternations, "wedge_type_1": PinWords.has_finite_wedges_type_1,
          "wedge_type_2": PinWords.has_finite_wedges_type_2}[fam]
    for k in range(1, 6):
        for x in itertools.permutations(range(k)):
            fn([Perm(x)] + [Perm(y) for y in cover])  # decided by the monitor against the family formulas
    ctx.count("oracleB.table_probes")


def nonpin_bases(rng, with_length7):
    """bases in which permutations that are NOT pin permutations matter: (a) one of them is the only element bounding one
    (family, orientation); (b) no element is a pin permutation although every (family, orientation) is bounded"""
    out = []
    nonpin6 = [t for t in itertools.permutations(range(6)) if t not in P.pin_perms(6)]
    copies = orientation_classes()
    nonpin7 = [t for t in itertools.permutations(range(7)) if t not in P.pin_perms(7)] if with_length7 else []
    viable = []
    for target in copies:
        sep = separating_basis(target)
        if not sep:
            continue
        inside = [q for q in nonpin6 if C.contains_bt(target[1], q)] or [q for q in nonpin7[::7] if C.contains_bt(target[1], q)]
        if inside:
            viable.append((sep, inside))
    for sep, inside in rng.sample(viable, min(3, len(viable))):
        out.append([list(b) for b in sep] + [list(rng.choice(inside))])
    if with_length7:
        rng.shuffle(nonpin6)
        rng.shuffle(nonpin7)
        basis = []
        for _fam, mem in copies:
            if any(C.contains_bt(mem, b) for b in basis):
                continue
            q = next((q for q in nonpin6 + nonpin7 if C.contains_bt(mem, q)), None)
            if q is None:
                basis = None
                break
            basis.append(q)
        if basis:
            basis = [b for b in basis if not any(o != b and C.contains_bt(b, o) for o in basis)]
            out.append([list(b) for b in basis])
    return out


CHECKS = {"basis": chk_basis, "probe": chk_table_probe}


def inside_family_bases(rng, count):
    """bases chosen between the families: elements taken from inside the classes of the long members (one orientation each)"""
    out = []
    for _ in range(count):
        basis = []
        for fam in rng.sample(list(F.FAMILIES), rng.randint(1, 3)):
            for member in rng.sample(F.long_members(fam, 3), rng.randint(1, 3)):
                k = rng.randint(3, 5)
                pos = sorted(rng.sample(range(len(member)), k))
                basis.append(list(C.std([member[i] for i in pos])))
        rng.shuffle(basis)
        basis = basis[: rng.randint(1, 4)]
        if rng.random() < 0.2:  # a short element next to long ones (finite and near-finite classes)
            k = rng.randint(1, 2)
            basis.insert(rng.randint(0, len(basis)), rng.sample(range(k), k))
        out.append(basis)
    return out


def plan(tier, seed):
    s3 = [[list(p)] for p in itertools.permutations(range(3))]
    s4 = [[list(p)] for p in itertools.permutations(range(4))]
    if tier == "quick":
        bases = s3 + s4[::3] + [[[0, 1, 2, 3], [3, 2, 0, 1]], [[1, 3, 0, 2], [2, 0, 3, 1]], [[0, 2, 1], [2, 1, 0, 3]], [[1, 2, 0], [0, 1, 2, 3]],
                                [[0, 1, 2], [2, 1, 0]], [[0, 2, 1], [1, 0, 2]], [[2, 0, 1, 3], [1, 3, 0, 2], [3, 0, 2, 1]],
                                [[0, 1], [3, 2, 1, 0]], [[1, 0], [0, 1, 2]], [[0], [0, 1, 2]], [[0, 1], [1, 2, 0]], [[1, 0], [0, 1, 3, 2]], [[0, 1], [1, 0]],
                                [[2, 0, 3, 1], [0, 1, 2], [1, 0, 3, 2]], [[2, 0, 1], [1, 2, 3, 0], [2, 1, 0]], [[1, 0, 2, 3], [0, 2, 1], [3, 2, 1, 0], [1, 2, 0]]]
        extra = 24
    else:
        bases = s3 + s4 + [[a[0], b[0]] for a, b in itertools.combinations(s3 + s4[::2], 2)][::5]
        short = [[0], [0, 1], [1, 0]]
        bases += [[a, b[0]] for a in short for b in (s3 + s4[::5])] + [[[2, 0, 3, 1], [0, 1, 2], [1, 0, 3, 2]], [[2, 0, 1], [1, 2, 3, 0], [2, 1, 0]]]
        extra = 200
    parts = 16
    probes = [(fi, oi) for fi, n in enumerate((4, 4, 8)) for oi in range(n)]
    specs = [{"name": f"bases-{i}", "kind": "bases", "bases": bases[i::parts], "extra": extra // parts + (i < extra % parts),
              "probes": probes[i::parts], "targets": [i]} for i in range(parts)]
    specs.append(dict(specs[2], name="bases-hashseed", env={"PYTHONHASHSEED": str(313 + seed)}))
    specs.append({"name": "nonpin", "kind": "nonpin", "bases": [], "extra": 0, "length7": True})
    return specs


def run(ctx, spec):
    rng = ctx.rng
    if spec.get("kind") == "nonpin":
        for basis in nonpin_bases(rng, spec["length7"]):
            ts = [tuple(b) for b in basis]
            B = [Perm(t) for t in ts]
            # (the full variation workload is too slow with length-7 tables: the three offers and two listing orders)
            PinWords.has_finite_simples(B)
            PinWords.has_finite_simples(B[::-1])
            a, b = Av(B).has_finitely_many_simples(), FinitelyManySimplesStrategy(B).applies()
            ctx.ev()
            easy = K.is_finite(ts) or K.is_polynomial(ts)
            util = PinWords.has_finite_simples(B)
            if b is not util or a is not (util or easy):
                report("basis", [basis], f"the offers disagree: PinWords {util}, Av {a}, strategy {b}")
            ctx.count("nonpin.bases")
        ctx.sample({"nonpin_basis": basis})
        return
    for basis in spec["bases"]:
        chk_basis(ctx, basis)
    for fi, oi in spec.get("probes", []):
        chk_table_probe(ctx, fi, oi)
    for t in spec.get("targets", []):
        basis = separating_basis(orientation_classes()[t])
        if basis:
            chk_basis(ctx, [list(b) for b in basis])
            ctx.count("separating_bases")
    for basis in inside_family_bases(rng, spec["extra"]):
        chk_basis(ctx, basis, enumerate_simples=rng.random() < 0.7)
    ctx.note(f"enumeration bound N={NN['v']}; family members of length 2k+4 in all orientations")
