"""C18 Shading-lemma verdicts and point insertion preserve the meaning of mesh patterns."""
import itertools

from permuta import MeshPatt, Perm
from permuta.misc import DIR_EAST, DIR_NONE, DIR_NORTH, DIR_SOUTH, DIR_WEST

from .. import monitor
from ..conv import dec, enc, plain
from ..oracle import classical as C
from ..oracle import mesh as M

ID = "C18"
RULE = (
    "Recorders on MeshPatt.can_shade, can_simul_shade, shadable_boxes, add_point, add_increase, add_decrease, shade and "
    "ascii_plot. Semantic oracle: every positive shading-lemma verdict (single cell, simultaneous pair, every entry of the "
    "table) is checked by comparing, over ALL permutations up to length N, the permutations containing the pattern before and "
    "after shading (cell-geometry containment); add_point / add_increase / add_decrease results are compared, over all "
    "permutations up to N, with 'some occurrence of the original has a point (an increasing / decreasing pair) in that cell'; "
    "returned point values must be points adjacent to the cell; the table must be the union of the single and pair verdicts; "
    "shade() adds exactly the cells; ascii_plot is parsed back by an independent parser for cell sizes 1-3. "
    "Non-trivial = distinct positive lemma verdicts + distinct (pattern, cell, direction) insertions whose result is contained "
    "in at least one permutation <= N."
)
ASSUMPTIONS = ["only soundness of positive lemma verdicts is a property (the lemma is not complete)", "N = 6 (7 thorough); oracle: vf/oracle/mesh.py"]
REQUIRED = ["calls.MeshPatt.can_shade", "calls.MeshPatt.can_simul_shade", "calls.MeshPatt.shadable_boxes", "calls.MeshPatt.add_point",
            "calls.MeshPatt.add_increase", "calls.MeshPatt.add_decrease", "calls.MeshPatt.shade", "calls.MeshPatt.ascii_plot", "calls.Perm.ascii_plot", "calls.MeshPatt.has_anchored_point", "calls.MeshPatt.non_pointless_boxes", "calls.MeshPatt.__str__", "calls.MeshPatt.__bool__",
            "lemma.positive_single", "lemma.positive_pair", "lemma.table_entries", "insertion.decisions", "plot.parsed", "history.derived_objects", "history.mixed_lengths", "receivers.bivincular_family"]
MIN_NONTRIVIAL = 300
CTX = None
MON = None
NN = {"v": 6}
_TEXTS = {}
FULL_EVERY = {"quick": 12, "thorough": 3}


def report(check, args, detail):
    CTX.fail(check, args, detail)


def texts(N):
    if N not in _TEXTS:
        _TEXTS[N] = [t for n in range(N + 1) for t in C.all_perms(n)]
    return _TEXTS[N]


def containing(p, S, N):
    return frozenset(t for t in texts(N) if len(t) >= len(p) and M.contains(t, p, S))


def same_meaning(p, S, extra, N):
    """does shading the extra cells change the set of permutations (<= N) containing the pattern?"""
    S2 = S | set(extra)
    for t in texts(N):
        if len(t) < len(p):
            continue
        if M.contains(t, p, S) != M.contains(t, p, S2):
            return t
    return None


def adjacent_point_ok(p, cell, v):
    """v is the value of a point that touches the cell"""
    if not (isinstance(v, int) and 0 <= v < len(p)):
        return False
    i = p.index(v)
    return cell in {(i, v), (i + 1, v), (i, v + 1), (i + 1, v + 1)}


def post_can_shade(args, kwargs, res, exc):
    P, pos = args[0], tuple(args[1])
    if exc is not None:
        return
    p, S = plain(P)
    CTX.ev()
    if not res:
        return
    CTX.count("lemma.positive_single")
    bad = same_meaning(p, S, [pos], NN["v"])
    if bad is not None:
        report("shade1", [enc(P), list(pos)], f"can_shade({pos}) = {res} on {P!r}, but shading it changes containment for {bad}")
    elif not all(adjacent_point_ok(p, pos, v) for v in res) or len(set(res)) != len(res):
        report("shade1", [enc(P), list(pos)], f"can_shade({pos}) = {res}: not distinct values of points touching the cell")
    else:
        CTX.nt(("s1", p, tuple(sorted(S)), pos))


def post_can_simul(args, kwargs, res, exc):
    P, a, b = args[0], tuple(args[1]), tuple(args[2])
    if exc is not None:
        return
    p, S = plain(P)
    CTX.ev()
    if not res:
        return
    CTX.count("lemma.positive_pair")
    bad = same_meaning(p, S, [a, b], NN["v"])
    if bad is not None:
        report("shade2", [enc(P), list(a), list(b)], f"can_simul_shade({a}, {b}) = {res} on {P!r}, but shading both changes containment for {bad}")
    elif not all(adjacent_point_ok(p, a, v) or adjacent_point_ok(p, b, v) for v in res):
        report("shade2", [enc(P), list(a), list(b)], f"can_simul_shade({a}, {b}) = {res}: not values of points touching the cells")
    else:
        CTX.nt(("s2", p, tuple(sorted(S)), a, b))


def post_table(args, kwargs, res, exc):
    P = args[0]
    if exc is not None:
        CTX.ev()
        report("table", [enc(P)], f"shadable_boxes raised {exc!r}")
        return
    p, S = plain(P)
    k = len(p)
    want = {}
    for x in range(k + 1):
        for y in range(k + 1):
            for v in P.can_shade((x, y)):
                want.setdefault(v, []).append(((x, y),))
            if x < k:
                for v in P.can_simul_shade((x, y), (x + 1, y)):
                    want.setdefault(v, []).append(((x, y), (x + 1, y)))
            if y < k:
                for v in P.can_simul_shade((x, y), (x, y + 1)):
                    want.setdefault(v, []).append(((x, y), (x, y + 1)))
    CTX.ev()
    got = {v: sorted(tuple(map(tuple, e)) for e in lst) for v, lst in res.items() if lst}
    if got != {v: sorted(l) for v, l in want.items()}:
        report("table", [enc(P)], f"shadable_boxes = {got}, union of the single and pair verdicts = {want}")
        return
    for v, lst in got.items():
        for entry in lst:
            CTX.count("lemma.table_entries")
            bad = same_meaning(p, S, entry, NN["v"])
            if bad is not None:
                report("table", [enc(P)], f"table entry {entry} (point {v}) changes containment for {bad}")
                return


DIRNAME = {DIR_EAST: "east", DIR_NORTH: "north", DIR_WEST: "west", DIR_SOUTH: "south", DIR_NONE: "none"}


def has_point_in_cell(t, p, S, cell, need=1, order=None):
    """some occurrence of (p, S) in t has >= need points in the cell (for need=2: in the given relative order)"""
    for occ in M.occurrences(p, S, t):
        vals = sorted(t[i] for i in occ)
        inside = [(j, t[j]) for j in range(len(t)) if j not in occ and M.cell_of(j, t[j], occ, vals) == cell]
        if need == 1 and inside:
            return True
        if need == 2:
            for (j1, v1), (j2, v2) in itertools.combinations(inside, 2):
                if (v1 < v2) == (order == "inc"):
                    return True
    return False


def judge_insertion(P, cell, res, label, case, need=1, order=None):
    p, S = plain(P)
    q, T = plain(res)
    N = NN["v"]
    any_pos = False
    for t in texts(N):
        if len(t) < len(q):
            continue
        CTX.count("insertion.decisions")
        got = M.contains(t, q, T)
        want = has_point_in_cell(t, p, S, cell, need, order)
        any_pos |= want
        if got != want:
            CTX.ev()
            report(*case, f"{label}: the result ({q}, {sorted(T)}) is {'contained' if got else 'not contained'} in {t}, but the original "
                   f"{'has' if want else 'has no'} occurrence with {need} point(s) in cell {cell}")
            return
    CTX.ev()
    if any_pos:
        CTX.nt((label, p, tuple(sorted(S)), cell))


def post_add_point(args, kwargs, res, exc):
    P, pos = args[0], tuple(args[1])
    d = args[2] if len(args) > 2 else kwargs.get("shade_dir", DIR_NONE)
    if exc is not None:
        return  # assertion domain (shaded cell)
    if len(P) + 1 > NN["v"] - 1:
        return
    judge_insertion(P, pos, res, f"add_point({pos}, {DIRNAME.get(d, d)})", ("insert", [enc(P), list(pos), d]))


def post_add_two(kind):
    def post(args, kwargs, res, exc):
        P, pos = args[0], tuple(args[1])
        if exc is not None or len(P) + 2 > NN["v"] - 1:
            return
        judge_insertion(P, pos, res, f"add_{kind}({pos})", ("insert2", [enc(P), list(pos), kind]), need=2, order="inc" if kind == "increase" else "dec")
    return post


def post_shade(args, kwargs, res, exc):
    P, cells = args[0], [tuple(c) for c in args[1:]]
    if exc is not None:
        return
    CTX.ev()
    p, S = plain(P)
    if plain(res) != (p, frozenset(S | set(cells))):
        report("shade", [enc(P), [list(c) for c in cells]], f"shade{tuple(cells)} on {P!r} gives {res!r}")


def parse_plot(text, cs):
    """independent parser of MeshPatt.ascii_plot -> (perm tuple, shaded cells)"""
    if text == "":
        return (), frozenset()
    lines = text.split("\n")
    n = (len(lines) - cs) // (cs + 1)
    assert len(lines) == (n + 1) * cs + n, "unexpected number of lines"
    perm = [None] * n
    shaded = set()
    for r in range(n + 1):
        y = n - r
        block = lines[r * (cs + 1): r * (cs + 1) + cs]
        assert len(set(block)) == 1, "cell rows of one block differ"
        fields = block[0].split("|")
        assert len(fields) == n + 1, f"expected {n + 1} cells in a row"
        for x, f in enumerate(fields):
            if f == "▒" * cs:
                shaded.add((x, y))
            else:
                assert f in (" " * cs, "") and (f != "" or x == n), f"bad cell {f!r}"
        if r < n:
            grid = lines[r * (cs + 1) + cs]
            assert len(grid) == n + (n + 1) * cs
            for j in range(n):
                ch = grid[cs + j * (cs + 1)]
                assert ch in "+●"
                if ch == "●":
                    assert perm[j] is None
                    perm[j] = y - 1
            assert grid.replace("+", "-").replace("●", "-") == "-" * len(grid)
    assert None not in perm
    return tuple(perm), frozenset(shaded)


def post_plot(args, kwargs, res, exc):
    P = args[0]
    cs = args[1] if len(args) > 1 else kwargs.get("cell_size", 1)
    if exc is not None:
        return
    CTX.ev()
    CTX.count("plot.parsed")
    try:
        got = parse_plot(res, cs)
    except AssertionError as err:
        report("plot", [enc(P), cs], f"ascii_plot(cell_size={cs}) of {P!r} cannot be parsed back: {err}")
        return
    if got != plain(P):
        report("plot", [enc(P), cs], f"ascii_plot(cell_size={cs}) of {P!r} parses back to ({got[0]}, {sorted(got[1])})")


def post_perm_plot(args, kwargs, res, exc):
    """Perm.ascii_plot: rows from the top value down, the point of column i sits on the grid line of its value"""
    P = args[0]
    cs = args[1] if len(args) > 1 else kwargs.get("cell_size", 1)
    if exc is not None or cs < 1 or not C.is_perm(tuple(P)):
        return
    CTX.ev()
    CTX.count("plot.perm_parsed")
    n = len(P)
    rows = [l for l in res.split("\n") if "-" in l or "\u25cf" in l or "+" in l]
    got = [None] * n
    ok = len(rows) == n
    for r, line in enumerate(rows if ok else []):
        cells = line.replace("-", "")
        ok = ok and len(cells) == n and cells.count("\u25cf") == 1 and set(cells) <= {"+", "\u25cf"} and len(line) == n + (n + 1) * cs
        if ok:
            got[cells.index("\u25cf")] = n - 1 - r
    if not ok or tuple(got) != tuple(P) or (n and len(res.split("\n")) != n + (n + 1) * cs):
        report("plot", [enc(P), cs], f"Perm.ascii_plot(cell_size={cs}) of {P!r} does not parse back (read {got})")


def post_anchored(args, kwargs, res, exc):
    P = args[0]
    p, S = plain(P)
    n = len(p)
    cells = [(x, y) for x in range(n + 1) for y in range(n + 1)]
    CTX.ev()
    want = (not [c for c in cells if c[0] == n and c not in S], not [c for c in cells if c[1] == n and c not in S],
            not [c for c in cells if c[0] == 0 and c not in S], not [c for c in cells if c[1] == 0 and c not in S])
    if exc is not None or tuple(res) != want:
        report("lookup", [enc(P)], f"has_anchored_point() = {res!r}, (right, top, left, bottom) fully shaded strips are {want}")


def post_boxes(args, kwargs, res, exc):
    P = args[0]
    p, _S = plain(P)
    n = len(p)
    CTX.ev()
    # the cell (x, y) is the square [x, x+1] x [y, y+1]; the point of column i sits at (i+1, p[i]+1)
    want = {(x, y) for x in range(n + 1) for y in range(n + 1) if any(x <= i + 1 <= x + 1 and y <= v + 1 <= y + 1 for i, v in enumerate(p))}
    if exc is not None or set(res) != want:
        report("lookup", [enc(P)], f"non_pointless_boxes() = {sorted(res) if exc is None else exc!r}, cells with a point on a corner: {sorted(want)}")


def post_str(args, kwargs, res, exc):
    P = args[0]
    p, S = plain(P)
    CTX.ev()
    ok = exc is None and isinstance(res, str) and res.startswith("(") and res.endswith(")") and ", [" in res
    if ok:
        head, tail = res[1:-1].split(", [", 1)
        try:
            cells = eval("[" + tail, {})
        except Exception:  # pylint: disable=broad-except
            cells = None
        want_head = "\u03b5" if not p else "".join(str(v) if len(p) <= 10 else f"({v})" for v in p)
        ok = cells == sorted(S) and head == want_head
    if not ok:
        report("lookup", [enc(P)], f"str() = {res!r} does not show the pattern {p} and the sorted shading {sorted(S)}")


def post_bool(args, kwargs, res, exc):
    P = args[0]
    p, S = plain(P)
    CTX.ev()
    if exc is not None or res is not bool(p or S):
        report("lookup", [enc(P)], f"bool() = {res!r} for pattern {p} with {len(S)} shaded cells")


def setup(ctx):
    global CTX, MON
    CTX = ctx
    if ctx.tier == "thorough":
        NN["v"] = 7
    MON = m = monitor.Monitors(ctx)
    m.wrap(MeshPatt, "can_shade", post_can_shade)
    m.wrap(MeshPatt, "can_simul_shade", post_can_simul, aliases=("can_shade2",))
    m.wrap(MeshPatt, "shadable_boxes", post_table)
    m.wrap(MeshPatt, "add_point", post_add_point)
    m.wrap(MeshPatt, "add_increase", post_add_two("increase"))
    m.wrap(MeshPatt, "add_decrease", post_add_two("decrease"))
    m.wrap(MeshPatt, "shade", post_shade)
    m.wrap(MeshPatt, "ascii_plot", post_plot)
    m.wrap(Perm, "ascii_plot", post_perm_plot)
    m.wrap(MeshPatt, "has_anchored_point", post_anchored)
    m.wrap(MeshPatt, "non_pointless_boxes", post_boxes)
    m.wrap(MeshPatt, "__str__", post_str)
    m.wrap(MeshPatt, "__bool__", post_bool)


def teardown(ctx):
    MON.uninstall()


# ---- replayable checks (drive the API; the monitors decide) -------------------------------------------------------------
def chk_shade1(ctx, ep, pos):
    dec(ep).can_shade(tuple(pos))


def chk_shade2(ctx, ep, a, b):
    dec(ep).can_simul_shade(tuple(a), tuple(b))


def chk_table(ctx, ep):
    P = dec(ep)
    with monitor.GUARD:
        pass
    P.shadable_boxes()


def chk_insert(ctx, ep, pos, d):
    P = dec(ep)
    if tuple(pos) not in P.shading:
        P.add_point(tuple(pos), d)


def chk_insert2(ctx, ep, pos, kind):
    P = dec(ep)
    x, y = pos
    if kind == "increase":
        ok = (x, y) not in P.shading
        if ok:
            try:
                P.add_increase((x, y))
            except AssertionError:
                pass
    else:
        if (x, y) not in P.shading:
            try:
                P.add_decrease((x, y))
            except AssertionError:
                pass


def chk_shade(ctx, ep, cells):
    dec(ep).shade(*[tuple(c) for c in cells])


def chk_plot(ctx, ep, cs):
    dec(ep).ascii_plot(cs)


def chk_pattern(ctx, ep, full=True):
    """everything on one pattern: every cell, every adjacent pair, every direction"""
    P = dec(ep)
    k = len(P)
    for x in range(k + 1):
        for y in range(k + 1):
            P.can_shade((x, y))
            if x < k:
                P.can_simul_shade((x, y), (x + 1, y))
                P.can_shade2((x + 1, y), (x, y))
            if y < k:
                P.can_simul_shade((x, y), (x, y + 1))
            if full and (x, y) not in P.shading:
                for d in (DIR_NONE, DIR_EAST, DIR_NORTH, DIR_WEST, DIR_SOUTH):
                    P.add_point((x, y), d)
                chk_insert2(ctx, ep, [x, y], "increase")
                chk_insert2(ctx, ep, [x, y], "decrease")
    P.shadable_boxes()
    cells = [(x, y) for x in range(k + 1) for y in range(k + 1)]
    P.shade(*ctx.rng.sample(cells, ctx.rng.randint(0, min(3, len(cells)))))
    for cs in (1, 2, 3):
        P.ascii_plot(cs)
        P.pattern.ascii_plot(cs)
    P.has_anchored_point(), P.non_pointless_boxes(), str(P), bool(P)
    # history: objects DERIVED through the API (not rebuilt from their value) are asked the same questions after
    # their parent has been asked - results must depend on the value only
    if ctx.rng.random() > 0.2:
        return
    derived = [P.shade(c) for c in ctx.rng.sample(cells, min(2, len(cells)))]
    free = [c for c in cells if c not in P.shading]
    if free and k <= 2:
        derived.append(P.add_point(ctx.rng.choice(free)))
    derived.append(P.rotate(ctx.rng.randint(1, 3)))
    for Q in derived:
        ctx.count("history.derived_objects")
        kq = len(Q)
        for x in range(kq + 1):
            for y in range(kq + 1):
                Q.can_shade((x, y))
                if x < kq:
                    Q.can_simul_shade((x, y), (x + 1, y))
                if y < kq:
                    Q.can_simul_shade((x, y), (x, y + 1))
        if ctx.rng.random() < 0.3:
            Q.shadable_boxes()
        Q2 = Q.shade(ctx.rng.choice([(x, y) for x in range(kq + 1) for y in range(kq + 1)]))
        Q2.can_shade((0, 0))
        Q2.can_simul_shade((0, 0), (0, 1)) if kq >= 1 else None


CHECKS = {"shade1": chk_shade1, "shade2": chk_shade2, "table": chk_table, "insert": chk_insert, "insert2": chk_insert2,
          "shade": chk_shade, "plot": chk_plot, "pattern": chk_pattern}


def plan(tier, seed):
    specs = [{"name": f"small-{i}", "kind": "small", "part": i, "parts": 16} for i in range(16)]
    n3 = 1600 if tier == "quick" else 8000
    specs += [{"name": f"rand-{i}", "kind": "rand", "count": n3 // 16, "k4": 0 if tier == "quick" else 40, "index": i, "of": 16} for i in range(16)]
    return specs


def run(ctx, spec):
    rng = ctx.rng
    if spec["kind"] == "small":
        i = 0
        for k in range(3):
            for p in itertools.permutations(range(k)):
                for s in M.all_shadings(k):
                    i += 1
                    if i % spec["parts"] != spec["part"]:
                        continue
                    ep = {"cls": "MeshPatt", "p": list(p), "s": sorted(map(list, s))}
                    chk_pattern(ctx, ep, full=(k < 2 or (i // spec["parts"]) % FULL_EVERY[ctx.tier] == 0))
        ctx.note("exhaustive: every mesh pattern of length <= 2 x every cell / adjacent pair (insertions on every pattern of length <= 1 and on every 12th (quick) / 2nd (thorough) of length 2)")
    else:
        # mixed-length history in one process: a pattern and a LONGER pattern with the same rank() number (and the
        # same cells) are asked the same questions one after the other
        for _ in range(max(8, spec["count"] // 6)):
            k = rng.choice([1, 2, 2])
            small = MeshPatt(Perm(rng.sample(range(k), k)), [(x, y) for x in range(k + 1) for y in range(k + 1) if rng.random() < 0.3])
            big = MeshPatt.unrank(Perm(rng.sample(range(k + 1), k + 1)), small.rank())
            same_cells = MeshPatt(big.pattern, small.shading)
            for Q in (small, big, same_cells):
                kq = len(Q)
                for x in range(kq + 1):
                    for y in range(kq + 1):
                        Q.can_shade((x, y))
                        if x < kq:
                            Q.can_simul_shade((x, y), (x + 1, y))
                free = [(x, y) for x in range(kq + 1) for y in range(kq + 1) if (x, y) not in Q.shading]
                if free and kq <= 2:
                    Q.add_point(rng.choice(free), rng.choice([DIR_NONE, DIR_EAST, DIR_NORTH, DIR_WEST, DIR_SOUTH]))
            ctx.count("history.mixed_lengths")
        # receivers of the bivincular family (they inherit every one of these operations): all requirement sets for length <= 2
        from permuta import BivincularPatt, CovincularPatt, VincularPatt

        fam = []
        for k in (1, 2):
            subsets = [[x for x in range(k + 1) if mask >> x & 1] for mask in range(2 ** (k + 1))]
            for q in itertools.permutations(range(k)):
                fam += [VincularPatt(Perm(q), a) for a in subsets] + [CovincularPatt(Perm(q), a) for a in subsets]
                fam += [BivincularPatt(Perm(q), a, b) for a in subsets for b in subsets]
        mine = fam[spec.get("index", 0):: spec.get("of", 1)]
        for B in mine:
            chk_pattern(ctx, enc(B), full=len(B) < 2 or rng.random() < 0.25)
            ctx.count("receivers.bivincular_family")
        for _ in range(spec["count"]):
            k = 3
            p = rng.sample(range(k), k)
            dens = rng.choice([0.1, 0.25, 0.5])
            ep = {"cls": "MeshPatt", "p": p, "s": [[x, y] for x in range(k + 1) for y in range(k + 1) if rng.random() < dens]}
            P = dec(ep)
            for x in range(k + 1):
                for y in range(k + 1):
                    P.can_shade((x, y))
                    if x < k:
                        P.can_simul_shade((x, y), (x + 1, y))
                    if y < k:
                        P.can_simul_shade((x, y), (x, y + 1))
            if rng.random() < 0.15:
                P.shadable_boxes()
            if rng.random() < 0.1:
                free = [(x, y) for x in range(k + 1) for y in range(k + 1) if (x, y) not in P.shading]
                if free:
                    P.add_point(rng.choice(free), rng.choice([DIR_NONE, DIR_EAST, DIR_NORTH, DIR_WEST, DIR_SOUTH]))
            P.ascii_plot(rng.choice([1, 2, 3]))
        for _ in range(spec["k4"]):
            k = 4
            p = rng.sample(range(k), k)
            ep = {"cls": "MeshPatt", "p": p, "s": [[x, y] for x in range(k + 1) for y in range(k + 1) if rng.random() < 0.3]}
            P = dec(ep)
            for x in range(k + 1):
                for y in range(k + 1):
                    P.can_shade((x, y))
        ctx.sample({"pattern": ep})
