"""C08 Equality, hashing and ordering of permutations, patterns and bases are coherent."""
import gc
import itertools
import random

from permuta import Basis, BivincularPatt, CovincularPatt, MeshBasis, MeshPatt, Perm, VincularPatt

from .. import monitor
from ..conv import dec, enc
from ..oracle import mesh as M

ID = "C08"
RULE = (
    "Monitors on __hash__ (Perm via tuple, MeshPatt, BivincularPatt, Basis, MeshBasis), __eq__ and the four ordering "
    "operators of MeshPatt/Perm: a shadow table (object -> first hash) asserts that an object's hash never changes; "
    "every True equality is checked for equal hashes and symmetry; every ordering call on mesh-type operands must "
    "return a bool (no NotImplemented/TypeError) and satisfy trichotomy with ==. Workload: a universe of permutations, "
    "mesh, bivincular, vincular, covincular patterns (each with its MeshPatt twin and as >=2 distinct objects) and "
    "bases: all pairs (eq/hash/order laws, set and dict lookups), all triples of a sub-universe + sampled triples "
    "(transitivity), sorted() of shuffles, and hash-stability histories with seeded allocation churn / gc between two "
    "hash computations. Non-trivial = distinct cross-subclass pairs + distinct (object, churn) pairs for overridden __hash__."
)
ASSUMPTIONS = ["order on mesh-type patterns is only required to be a total order consistent with ==; for permutations it must be (length, lexicographic)"]
REQUIRED = ["calls.MeshPatt.__hash__", "calls.MeshPatt.__eq__", "calls.MeshPatt.__lt__", "hash.stable_checked", "eq.true_checked", "order.cross_subclass", "triples.checked",
            "churn.histories", "lookup.checked", "sorted.checked", "derived.twins", "nested.shading_families"]
MIN_NONTRIVIAL = 500
CTX = None
MON = None
SHADOW = {}  # id(obj) -> (obj, first hash)   (strong reference: ids are never reused)


def report(check, args, detail):
    CTX.fail(check, args, detail)


def encx(o):
    if isinstance(o, (Basis, MeshBasis)):
        return {"basis": type(o).__name__, "elems": [enc(q) for q in o]}
    return enc(o)


def decx(o):
    if isinstance(o, dict) and "basis" in o:
        cls = Basis if o["basis"] == "Basis" else MeshBasis
        return cls(*[dec(q) for q in o["elems"]])
    return dec(o)


def post_hash(args, kwargs, res, exc):
    obj = args[0]
    CTX.ev()
    if exc is not None or not isinstance(res, int):
        report("hash", [encx(obj), 0], f"hash({obj!r}) -> {res!r} ({exc!r})")
        return
    ent = SHADOW.get(id(obj))
    if ent is None:
        if len(SHADOW) < 200000:
            SHADOW[id(obj)] = (obj, res)
        return
    CTX.count("hash.stable_checked")
    if ent[1] != res:
        report("hash", [encx(obj), 0], f"hash of one live object changed: {ent[1]} -> {res} for {obj!r}")


def is_meshtype(o):
    return isinstance(o, MeshPatt)


def post_eq(args, kwargs, res, exc):
    a, b = args[0], args[1]
    CTX.ev()
    if exc is not None:
        report("pair", [encx(a), encx(b)] if is_known(b) else [encx(a), encx(a)], f"{a!r} == {b!r} raised {exc!r}")
        return
    if res is True:
        CTX.count("eq.true_checked")
        if hash(a) != hash(b):
            report("pair", [encx(a), encx(b)], f"{a!r} == {b!r} but hashes differ: {hash(a)} vs {hash(b)}")
        if is_known(b) and (b == a) is not True:
            report("pair", [encx(a), encx(b)], f"{a!r} == {b!r} but not the other way round")


def is_known(o):
    return isinstance(o, (Perm, MeshPatt, Basis, MeshBasis))


def post_order(name):
    def post(args, kwargs, res, exc):
        a, b = args[0], args[1]
        if not (is_meshtype(a) and is_meshtype(b)):
            return
        CTX.ev()
        if type(a) is not type(b):
            CTX.count("order.cross_subclass")
        if exc is not None or res is NotImplemented or not isinstance(res, bool):
            report("pair", [encx(a), encx(b)], f"{type(a).__name__}.{name}({type(b).__name__}) -> {res!r} ({exc!r}): order undefined for this pair")
    return post


def setup(ctx):
    global CTX, MON
    CTX = ctx
    MON = m = monitor.Monitors(ctx)
    # wrap whatever each class defines itself (a refactoring may move __eq__/__hash__ up or down the hierarchy)
    for cls in (MeshPatt, BivincularPatt, VincularPatt, CovincularPatt, Basis, MeshBasis):
        if "__hash__" in cls.__dict__ and cls.__dict__["__hash__"] is not None:
            m.wrap(cls, "__hash__", post_hash)
        if "__eq__" in cls.__dict__:
            m.wrap(cls, "__eq__", post_eq)
        for name in ("__lt__", "__le__", "__gt__", "__ge__"):
            if name in cls.__dict__ and cls not in (Basis, MeshBasis):
                m.wrap(cls, name, post_order(name))


def teardown(ctx):
    MON.uninstall()


# ---- laws on pairs / triples -------------------------------------------------------------------------
def semantically_equal(a, b):
    """Equality as the property defines it: same kind of value, same content (bivincular-type == mesh twin)."""
    if isinstance(a, Perm) and isinstance(b, Perm):
        return tuple(a) == tuple(b)
    if is_meshtype(a) and is_meshtype(b):
        return tuple(a.pattern) == tuple(b.pattern) and frozenset(a.shading) == frozenset(b.shading)
    if type(a) is type(b) and isinstance(a, (Basis, MeshBasis)):
        return len(a) == len(b) and all(semantically_equal(x, y) for x, y in zip(a, b))
    return False


def kind_of(o):
    return "perm" if isinstance(o, Perm) else "mesh" if is_meshtype(o) else type(o).__name__


def chk_pair(ctx, ea, eb):
    a, b = decx(ea), decx(eb)
    _pair(a, b, ea, eb)


def _pair(a, b, ea=None, eb=None):
    args = lambda: [ea if ea is not None else encx(a), eb if eb is not None else encx(b)]  # noqa: E731
    want = semantically_equal(a, b)
    try:
        e1, e2, n1 = (a == b), (b == a), (a != b)
    except Exception as exc:
        report("pair", args(), f"equality raised {exc!r}")
        return
    CTX.ev()
    if kind_of(a) != kind_of(b):
        # values of different kinds (permutation / mesh-type pattern / basis): the statement only asks that
        # comparing never fails and that whatever compares equal hashes equal (Perm(()) == Basis(()) is True
        # through tuple equality, not the other way round: recorded as an observation, not judged)
        if (e1 is True or e2 is True):
            CTX.count("observation.cross_kind_equal")
            if hash(a) != hash(b):
                report("pair", args(), f"{a!r} and {b!r} compare equal but hash differently")
        return
    if not (e1 is want and e2 is want and n1 is (not want)):
        report("pair", args(), f"{a!r} == {b!r}: {e1}/{e2}/!=:{n1}, want {want}")
    if want:
        ha, hb = hash(a), hash(b)
        CTX.count("lookup.checked")
        if ha != hb or b not in {a} or a not in {b: 1} or {a: 1}.get(b) != 1 or len({a, b}) != 1:
            report("pair", args(), f"equal values do not find each other in set/dict: hash {ha} vs {hb}")
    both_mesh = is_meshtype(a) and is_meshtype(b)
    both_perm = isinstance(a, Perm) and isinstance(b, Perm)
    if both_mesh or both_perm:
        try:
            lt, le, gt, ge = a < b, a <= b, a > b, a >= b
            rlt = b < a
        except Exception as exc:
            report("pair", args(), f"ordering raised {exc!r} for {type(a).__name__} vs {type(b).__name__}")
            return
        CTX.ev()
        ok = (
            all(isinstance(v, bool) for v in (lt, le, gt, ge, rlt))
            and (lt + gt + want) == 1  # trichotomy
            and le == (lt or want) and ge == (gt or want) and gt == rlt
        )
        if both_perm:
            ok = ok and lt == ((len(a), tuple(a)) < (len(b), tuple(b)))
        if not ok:
            report("pair", args(), f"order laws fail: <:{lt} <=:{le} >:{gt} >=:{ge} reversed<:{rlt} equal:{want}")
        if both_mesh and type(a) is not type(b):
            CTX.nt(("cross", repr(a), repr(b)))


def chk_triple(ctx, ea, eb, ec):
    a, b, c = decx(ea), decx(eb), decx(ec)
    _triple(a, b, c)


def _triple(a, b, c):
    CTX.count("triples.checked")
    CTX.ev()
    try:
        if a <= b and b <= c and not a <= c:
            report("triple", [encx(a), encx(b), encx(c)], "<= is not transitive")
        if a < b and b < c and not a < c:
            report("triple", [encx(a), encx(b), encx(c)], "< is not transitive")
        if a == b and b == c and not a == c:
            report("triple", [encx(a), encx(b), encx(c)], "== is not transitive")
    except Exception as exc:
        report("triple", [encx(a), encx(b), encx(c)], f"comparison raised {exc!r}")


def churn(seed, heavy):
    """Allocation history between two hash computations."""
    rng = random.Random(seed)
    keep = []
    nops = 40 if not heavy else 400
    collect_at = {rng.randrange(nops)} if not heavy else {rng.randrange(nops) for _ in range(4)}
    for step in range(nops):
        c = rng.randrange(6)
        if c == 0:
            keep.append([object() for _ in range(rng.randint(1, 300))])
        elif c == 1:
            keep.append(bytearray(rng.choice([16, 64, 512, 4096, 70000])))
        elif c == 2:
            keep.append({i: str(i) * rng.randint(1, 5) for i in range(rng.randint(1, 200))})
        elif c == 3 and keep:
            del keep[rng.randrange(len(keep))]
        elif c == 4:
            keep.append([MeshPatt(Perm((0, 1)), [(rng.randrange(3), rng.randrange(3))]) for _ in range(rng.randint(1, 40))])
            for q in keep[-1][:5]:
                hash(q)
        elif c == 5:
            keep.append([super(BivincularPatt, BivincularPatt(Perm((0,)), [], [])) for _ in range(rng.randint(1, 30))])
        if step in collect_at:
            gc.collect()
    del keep


def chk_hash(ctx, eobj, seed, heavy=False):
    obj = decx(eobj)
    twin = decx(eobj)
    mesh_twin = MeshPatt(obj.pattern, obj.shading) if is_meshtype(obj) else None
    h0 = hash(obj)
    box, table = {obj}, {obj: "v"}
    churn(seed, heavy)
    h1 = hash(obj)
    ctx.ev()
    ctx.count("churn.histories")
    ok = h0 == h1 and obj in box and table.get(obj) == "v" and twin in box and table.get(twin) == "v" and hash(twin) == h0
    if mesh_twin is not None:
        ok = ok and hash(mesh_twin) == h0 and mesh_twin in box and obj in {mesh_twin}
    if not ok:
        report("hash", [eobj, seed, heavy], f"hash/lookup unstable across an allocation history: {h0} -> {h1} ({obj!r})")
    if type(obj).__dict__.get("__hash__") is not None or isinstance(obj, BivincularPatt):
        ctx.nt(("churn", repr(obj), seed))


def chk_sorted(ctx, eobjs, seed):
    objs = [decx(e) for e in eobjs]
    rng = random.Random(seed)
    ref = sorted(objs)
    ctx.count("sorted.checked")
    for _ in range(4):
        sh = objs[:]
        rng.shuffle(sh)
        ctx.ev()
        got = sorted(sh)
        if not all(semantically_equal(x, y) for x, y in zip(ref, got)):
            report("sorted", [eobjs, seed], "sorted() of two shufflings of the same values differ")
            break
    if any(ref[i] > ref[i + 1] for i in range(len(ref) - 1)):
        report("sorted", [eobjs, seed], "sorted() output is not non-decreasing")


def derived_twins(o):
    """objects equal in value to o but obtained through other API calls / copying"""
    import copy
    import pickle

    out = []
    try:
        if isinstance(o, Perm):
            out += [o.inverse().inverse(), o.rotate(4), o.rotate().rotate(-1), Perm.to_standard(list(o)), Perm(list(o)),
                    o.compose(Perm.identity(len(o))), Perm.unrank(o.rank())]
        elif is_meshtype(o):
            out += [o.rotate().rotate(3), o.inverse().inverse(), o.complement().complement(), o.shade(), MeshPatt(o.pattern, list(o.shading)),
                    MeshPatt(Perm(list(o.pattern)), sorted(o.shading, reverse=True)), MeshPatt.unrank(o.pattern, MeshPatt(o.pattern, o.shading).rank())]
            if o.shading:
                c = sorted(o.shading)[0]
                out += [o.shade(c), o.shade(c, c), o.shade(*sorted(o.shading, reverse=True)), o.shade(c).shade(c)]
            if isinstance(o, BivincularPatt):
                ai, av = o.get_adjacent_requirements()
                out.append(BivincularPatt(o.pattern, ai, av))
        elif isinstance(o, Basis):
            out += [Basis(*reversed(o)), Basis.from_iterable(iter(o)), Basis(*o, *o)]
        elif isinstance(o, MeshBasis):
            out += [MeshBasis(*reversed(o)), MeshBasis.from_iterable(iter(o))]
        out.append(copy.copy(o))
        out.append(copy.deepcopy(o))
        out.append(pickle.loads(pickle.dumps(o)))
    except (pickle.PicklingError, TypeError, AttributeError):
        pass
    return out


def chk_derived(ctx, eo, obj=None):
    o = decx(eo) if obj is None else obj  # in the workload: the very object that has already been compared / hashed / sorted
    if obj is None and is_meshtype(o):
        sorted([o, decx(eo)])
        hash(o)
    for d in derived_twins(o):
        ctx.count("derived.twins")
        if semantically_equal(o, d):
            _pair(o, d)
            _pair(d, o)


CHECKS = {"derived": chk_derived, "pair": chk_pair, "triple": chk_triple, "hash": chk_hash, "sorted": chk_sorted}


# ---- universe --------------------------------------------------------------------------------------------
def universe(rng, tier):
    U = []
    for k in range(5):
        for p in itertools.permutations(range(k)):
            U.append(Perm(p))
    for k in range(2):
        for p in itertools.permutations(range(k)):
            for s in M.all_shadings(k):
                U.append(MeshPatt(Perm(p), s))
    for _ in range(250 if tier == "quick" else 900):
        k = rng.choice([2, 2, 3])
        p = rng.sample(range(k), k)
        dens = rng.choice([0.1, 0.3, 0.6])
        U.append(MeshPatt(Perm(p), [(x, y) for x in range(k + 1) for y in range(k + 1) if rng.random() < dens]))
    biv = []
    for k in range(3):
        subs = [list(c) for r in range(k + 2) for c in itertools.combinations(range(k + 1), r)]
        for p in itertools.permutations(range(k)):
            for ai in subs:
                biv.append(VincularPatt(Perm(p), ai))
                biv.append(CovincularPatt(Perm(p), ai))
                for av in subs:
                    if k < 2 or rng.random() < (0.5 if tier == "quick" else 1.0):
                        biv.append(BivincularPatt(Perm(p), ai, av))
    U.extend(biv)
    U.extend(MeshPatt(b.pattern, b.shading) for b in biv[::3])
    bases = [Basis(Perm((0, 1))), Basis(Perm((0, 1)), Perm((1, 0))), Basis(Perm((0, 2, 1)), Perm((1, 2, 0))), Basis(),
             Basis(Perm((0, 2, 1))), MeshBasis(Perm((0, 1))), MeshBasis(MeshPatt(Perm((0, 1)), [(1, 1)])), MeshBasis(),
             MeshBasis(VincularPatt(Perm((0, 1)), [1]), CovincularPatt(Perm((1, 0)), [1])),
             MeshBasis(MeshPatt(Perm((0, 1)), [(1, 0), (1, 1), (1, 2)]), MeshPatt(Perm((1, 0)), [(0, 1), (1, 1), (2, 1)]))]
    U.extend(bases)
    return U


def plan(tier, seed):
    parts = 16
    specs = [{"name": f"pairs-{i}", "kind": "pairs", "part": i, "parts": parts, "sample": 100000} for i in range(parts)]
    specs += [{"name": f"triples-{i}", "kind": "triples", "part": i, "parts": 4} for i in range(4)]
    specs.append({"name": "long-perms", "kind": "long"})
    specs += [{"name": f"churn-{i}", "kind": "churn", "part": i, "parts": 8, "churns": 50 if tier == "quick" else 500} for i in range(8)]
    return specs


def run(ctx, spec):
    urng = random.Random(f"universe-{ctx.seed}")  # the same universe in every shard
    U = universe(urng, ctx.tier)
    U2 = [decx(encx(o)) for o in U]  # equal values as distinct objects
    rng = ctx.rng
    if spec["kind"] == "pairs":
        core = [j for j, b in enumerate(U2) if not isinstance(b, (Perm, MeshPatt)) or len(b) <= 1]
        for i, a in enumerate(U):
            if i % spec["parts"] != spec["part"]:
                continue
            others = set(core) | {i} | set(rng.sample(range(len(U2)), min(len(U2), spec["sample"])))
            for j in sorted(others):
                _pair(a, U2[j])
            _pair(a, a)
            chk_derived(ctx, encx(a), obj=a)
        ctx.note(f"universe of {len(U)} values; each paired with every value of length <= 1, every basis, its own twin and {spec['sample']} sampled others (second operand a distinct equal-valued object)")
        ctx.sample({"pair": [encx(U[spec["part"]]), encx(U2[-spec["part"] - 1])]})
    elif spec["kind"] == "long":
        # lengths around CPython's small-integer cache and well beyond anything enumerated
        for n in (9, 15, 255, 256, 257, 258, 300, 1000):
            base = list(range(n))
            ps = []
            for _ in range(6):
                q = base[:]
                for _ in range(rng.choice([0, 1, 3])):
                    i, j = rng.sample(range(n), 2)
                    q[i], q[j] = q[j], q[i]
                ps.append(Perm(q))
            ps.append(Perm(rng.sample(range(n), n)))
            ps.append(Perm(base[:-1]))
            for a in ps:
                for b in ps:
                    _pair(a, Perm(list(b)))
            for _ in range(20):
                _triple(*[rng.choice(ps) for _ in range(3)])
        ctx.count("long.perm_lengths", 8)
        # nested shadings on one underlying permutation: every prefix (in sorted cell order) of a grid against longer
        # prefixes and against itself with a few later cells added - all sizes 0..(k+1)^2, so every "exactly 2^j cells" case
        for k in (3, 4, 5, 7):
            q = Perm(rng.sample(range(k), k))
            cells = sorted((x, y) for x in range(k + 1) for y in range(k + 1))
            for size in range(len(cells) + 1):
                a = MeshPatt(q, cells[:size])
                for more in (1, 2, 5):
                    if size + more <= len(cells):
                        _pair(a, MeshPatt(q, cells[: size + more]))
                later = cells[size:]
                if later:
                    extra = rng.sample(later, min(len(later), rng.randint(1, 3)))
                    _pair(a, a.shade(*extra))
                    _pair(MeshPatt(q, cells[:size] + extra), a)
                    _triple(a, MeshPatt(q, cells[:size] + extra), MeshPatt(q, cells[: max(0, size - 1)] + extra))
            # a small family of shadings that are prefixes of one another, prefixes with one later cell, and prefixes with an
            # earlier cell missing: every ordered triple (transitivity) and sorted() from several starting orders
            for _ in range(4):
                size = rng.randint(1, len(cells) - 2)
                fam = [MeshPatt(q, cells[:size]), MeshPatt(q, cells[: size + 1]), MeshPatt(q, cells[: size + 2]), MeshPatt(q, cells[: size - 1]),
                       MeshPatt(q, cells[:size] + [rng.choice(cells[size + 1:])]), MeshPatt(q, cells[1:size] + cells[size: size + 1]),
                       MeshPatt(q, cells[: size - 1] + [rng.choice(cells[size:])]), MeshPatt(q, [c for c in cells[: size + 2] if rng.random() < 0.8])]
                for a, b, c in itertools.permutations(fam, 3):
                    _triple(a, b, c)
                chk_sorted(ctx, [encx(o) for o in fam], rng.randrange(10 ** 6))
            ctx.count("nested.shading_families")
    elif spec["kind"] == "triples":
        meshes = [o for o in U if is_meshtype(o)]
        perms = [o for o in U if isinstance(o, Perm)]
        sub = rng.sample(meshes, 30) + rng.sample(perms, 10)
        for a, b, c in itertools.product(sub, repeat=3):
            if (isinstance(a, Perm), isinstance(b, Perm)) == (isinstance(b, Perm), isinstance(c, Perm)) and isinstance(a, Perm) == isinstance(b, Perm):
                _triple(a, b, c)
        for _ in range(6000 if ctx.tier == 'quick' else 100000):
            pool = meshes if rng.random() < 0.8 else perms
            _triple(*[rng.choice(pool) for _ in range(3)])
        for _ in range(60):
            pool = meshes if rng.random() < 0.8 else perms
            objs = [rng.choice(pool) for _ in range(rng.randint(2, 25))]
            chk_sorted(ctx, [encx(o) for o in objs], rng.randrange(10 ** 6))
        ctx.sample({"sorted": [encx(o) for o in objs[:4]]})
    else:
        cands = [o for o in U if isinstance(o, (BivincularPatt, Basis, MeshBasis))] + [o for o in U if type(o) is MeshPatt][::4] + [o for o in U if isinstance(o, Perm)][::6]
        mine = cands[spec["part"]:: spec["parts"]]
        per = max(1, spec["churns"] * 8 // max(1, len(mine)))
        for o in mine:
            for _ in range(min(per, spec["churns"])):
                chk_hash(ctx, encx(o), rng.randrange(10 ** 9), heavy=rng.random() < 0.05)
        ctx.sample({"churn_object": encx(mine[0])})
