"""Sequential reference model of a permutation class Av(raw basis), used by C02, C05, C07, C13, C16.
Plain data only (tuples / (tuple, frozenset)); nothing from permuta."""
from .oracle import classical as C
from .oracle import mesh as M

_CACHE = {}


def is_classical(raw):
    return all(not (len(q) == 2 and isinstance(q[1], (set, frozenset))) for q in raw)


def key_of(raw):
    return tuple(sorted((repr(q) for q in raw)))


def levels(raw, N):
    """levels[n] = set of avoiders of length n of the raw basis, n <= N."""
    key = key_of(raw)
    have = _CACHE.get(key)
    if have is not None and len(have) > N:
        return have[: N + 1]
    if is_classical(raw):
        lv = [set(l) for l in C.av_levels([tuple(q) for q in raw], N)]
    else:
        lv = [set(t for t in C.all_perms(n) if M.avoids_all(t, raw)) for n in range(N + 1)]
    if len(_CACHE) > 400:
        _CACHE.clear()
    _CACHE[key] = lv
    return lv


def member(raw, t):
    return M.avoids_all(tuple(t), raw)
