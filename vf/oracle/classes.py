"""Structure theorems for finiteness, polynomial growth and regular insertion encodings, written with
forbidden patterns (validated once against the 'two monotone runs' description, see DESIGN)."""
from . import classical as C  # noqa: F401  (also used by callers as K.C)

# horizontal juxtapositions of two monotone classes
H_II = [(2, 1, 0), (1, 0, 3, 2), (2, 0, 3, 1)]  # increasing | increasing
H_ID = [(1, 0, 2), (2, 0, 1)]  # increasing | decreasing
H_DI = [(0, 2, 1), (1, 2, 0)]  # decreasing | increasing
H_DD = [(0, 1, 2), (1, 3, 0, 2), (2, 3, 0, 1)]  # decreasing | decreasing
HORIZONTAL = [H_II, H_ID, H_DI, H_DD]
VERTICAL = [[C.inv(q) for q in cls] for cls in HORIZONTAL]
L2 = [(1, 2, 0), (2, 0, 1), (2, 1, 0)]  # direct sums of 1 and 21
L2R = [tuple(reversed(q)) for q in L2]  # skew sums of 1 and 12
TEN = HORIZONTAL + VERTICAL + [L2, L2R]


def in_class(p, basis):
    return not any(C.contains(p, q) for q in basis)


def meets(perms, basis):
    return any(in_class(p, basis) for p in perms)


def increasing(p):
    return not C.contains(p, (1, 0))


def decreasing(p):
    return not C.contains(p, (0, 1))


def is_finite(perms):
    return any(increasing(p) for p in perms) and any(decreasing(p) for p in perms)


def is_polynomial(perms):
    return all(meets(perms, cls) for cls in TEN)


def insenc_rightmost(perms):
    return all(meets(perms, cls) for cls in HORIZONTAL)


def insenc_topmost(perms):
    return all(meets(perms, cls) for cls in VERTICAL)


def types_of(p):
    return frozenset(i for i, cls in enumerate(TEN) if in_class(p, cls))


def fib(n):
    a, b = 1, 1
    for _ in range(n):
        a, b = b, a + b
    return a  # fib(0)=1, fib(1)=1, fib(2)=2, ...
