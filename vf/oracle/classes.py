"""Structure theorems for finiteness, polynomial growth and regular insertion encodings, written with
forbidden patterns (validated once against the 'two monotone runs' description, see DESIGN)."""
from . import classical as C  # noqa: F401  (also used by callers as K.C)

# horizontal juxtapositions of two monotone classes
H_II = [(2, 1, 0), (1, 0, 3, 2), (2, 0, 3, 1)]  # increasing | increasing
H_ID = [(1, 0, 2), (2, 0, 1)]  # increasing | decreasing
H_DI = [(0, 2, 1), (1, 2, 0)]  # decreasing | increasing
H_DD = [(0, 1, 2), (1, 3, 0, 2), (2, 3, 0, 1)]  # decreasing | decreasing
HORIZONTAL = [H_II, H_ID, H_DI, H_DD]
VERTICAL = [[C.inv(q) for q in cls] for cls in HORIZONTAL]
L2 = [(1, 2, 0), (2, 0, 1), (2, 1, 0)]  # direct sums of 1 and 21
L2R = [tuple(reversed(q)) for q in L2]  # skew sums of 1 and 12
TEN = HORIZONTAL + VERTICAL + [L2, L2R]


def in_class(p, basis):
    if len(p) > 12:  # long permutations: decide by the structural description (validated against the patterns on S_0..S_8)
        for idx, cls in enumerate(TEN):
            if basis is cls or list(basis) == list(cls):
                return in_class_structural(p, idx)
    return not any(C.contains(p, q) for q in basis)


def _monotone_prefix(q, inc):
    k = 1 if q else 0
    while k < len(q) and ((q[k] > q[k - 1]) == inc):
        k += 1
    return k


def in_class_structural(p, idx):
    """membership in the idx-th of the ten classes from its description: a juxtaposition of two monotone runs (read left to
    right for the horizontal classes, on the inverse for the vertical ones), or a direct sum of 1s and 21s / its reverse"""
    p = tuple(p)
    n = len(p)
    if idx < 8:
        q = p if idx < 4 else C.inv(p)
        kind = idx % 4
        first_inc, second_inc = kind in (0, 1), kind in (0, 2)
        k = _monotone_prefix(q, first_inc)                      # q[:j] is monotone for every j <= k
        s = n - _monotone_prefix(tuple(reversed(q)), not second_inc)  # q[j:] is monotone for every j >= s
        return s <= k
    q = p if idx == 8 else tuple(reversed(p))
    i = 0
    while i < n:
        if q[i] == i:
            i += 1
        elif i + 1 < n and q[i] == i + 1 and q[i + 1] == i:
            i += 2
        else:
            return False
    return True


def meets(perms, basis):
    return any(in_class(p, basis) for p in perms)


def increasing(p):
    return all(a < b for a, b in zip(p, p[1:])) if len(p) > 12 else not C.contains(p, (1, 0))


def decreasing(p):
    return all(a > b for a, b in zip(p, p[1:])) if len(p) > 12 else not C.contains(p, (0, 1))


def is_finite(perms):
    return any(increasing(p) for p in perms) and any(decreasing(p) for p in perms)


def is_polynomial(perms):
    return all(meets(perms, cls) for cls in TEN)


def insenc_rightmost(perms):
    return all(meets(perms, cls) for cls in HORIZONTAL)


def insenc_topmost(perms):
    return all(meets(perms, cls) for cls in VERTICAL)


def types_of(p):
    return frozenset(i for i, cls in enumerate(TEN) if in_class(p, cls))


def fib(n):
    a, b = 1, 1
    for _ in range(n):
        a, b = b, a + b
    return a  # fib(0)=1, fib(1)=1, fib(2)=2, ...
