"""Sorting devices, their pattern characterisations and named families, from textbook definitions."""
import itertools

from . import classical as C


def stack_pass(p):
    """West's stack-sorting operator: pop while the top is smaller than the next input."""
    out, st = [], []
    for x in p:
        while st and st[-1] < x:
            out.append(st.pop())
        st.append(x)
    while st:
        out.append(st.pop())
    return tuple(out)


def pop_stack_pass(p):
    """Pop-stack: when the next input is larger than the top, the whole stack is emptied first."""
    out, st = [], []
    for x in p:
        if st and st[-1] < x:
            while st:
                out.append(st.pop())
        st.append(x)
    while st:
        out.append(st.pop())
    return tuple(out)


def bubble_pass(p):
    a = list(p)
    for i in range(len(a) - 1):
        if a[i] > a[i + 1]:
            a[i], a[i + 1] = a[i + 1], a[i]
    return tuple(a)


def strong_fixed_points(p):
    n = len(p)
    return [i for i in range(n) if p[i] == i and all(p[j] < i for j in range(i)) and all(p[j] > i for j in range(i + 1, n))]


def quick_pass(p):
    """The quicksort operator: the strong fixed points stay; every maximal block between them is
    partitioned around its first entry (smaller entries, pivot, larger entries; orders kept)."""
    n = len(p)
    sfp = set(strong_fixed_points(p))
    out, block = [], []

    def flush():
        if block:
            piv = block[0]
            out.extend([v for v in block if v < piv] + [piv] + [v for v in block if v > piv])
            block.clear()

    for i in range(n):
        if i in sfp:
            flush()
            out.append(p[i])
        else:
            block.append(p[i])
    flush()
    return tuple(out)


def is_id(p):
    return all(v == i for i, v in enumerate(p))


def passes_needed(p, device):
    k, cur = 0, tuple(p)
    while not is_id(cur):
        cur = device(cur)
        k += 1
        assert k <= len(p) + 2
    return k


# ---- pattern characterisations ----------------------------------------------------------------------
def stack_sortable_by_patterns(p):
    return not C.contains(p, (1, 2, 0))


def pop_stack_sortable_by_patterns(p):
    return not C.contains(p, (1, 2, 0)) and not C.contains(p, (2, 0, 1))


def bubble_sortable_by_patterns(p):
    return not C.contains(p, (1, 2, 0)) and not C.contains(p, (2, 1, 0))


def west2_by_patterns(p):
    """avoids 2341 and the barred pattern 3 5-bar 2 4 1: every 3241 has a larger entry between its 3 and its 2"""
    if C.contains(p, (1, 2, 3, 0)):
        return False
    for (a, b, c, d) in C.occurrences((2, 1, 3, 0), p):
        if not any(p[m] > p[c] for m in range(a + 1, b)):
            return False
    return True


def quick_sortable_by_patterns(p):
    """avoids 321, 2413 and the mesh pattern (2143, middle cell (2,2) shaded):
    no occurrence of 2143 without an entry between its 1 and 4 (in position) and between its 2 and 3 (in value)"""
    if C.contains(p, (2, 1, 0)) or C.contains(p, (1, 3, 0, 2)):
        return False
    for (a, b, c, d) in C.occurrences((1, 0, 3, 2), p):
        if not any(p[a] < p[m] < p[d] for m in range(b + 1, c)):
            return False
    return True


# ---- Simion-Schmidt ------------------------------------------------------------------------------------
def ltr_minima(p):
    return [i for i in range(len(p)) if all(p[j] > p[i] for j in range(i))]


# ---- named families ---------------------------------------------------------------------------------------
def baxter(p):
    """no 2-41-3 and no 3-14-2 (the 4,1 resp. 1,4 adjacent in position)"""
    n = len(p)
    for j in range(n - 1):
        hi, lo = p[j], p[j + 1]
        if hi > lo:  # '41' adjacent
            for i in range(j):
                for k in range(j + 2, n):
                    if lo < p[i] < p[k] < hi:
                        return False
        else:  # '14' adjacent: p[j] < p[j+1]
            for i in range(j):
                for k in range(j + 2, n):
                    if p[j] < p[k] < p[i] < p[j + 1]:
                        return False
    return True


def simsun(p):
    """for every k the restriction of p to the values 0..k has no double descent"""
    for k in range(len(p)):
        w = [v for v in p if v <= k]
        if any(w[i] > w[i + 1] > w[i + 2] for i in range(len(w) - 2)):
            return False
    return True


def smooth(p):
    return not C.contains(p, (0, 2, 1, 3)) and not C.contains(p, (1, 0, 3, 2))


def forest_like(p):
    """avoids 1324 and the barred pattern 21 3-bar 54"""
    if C.contains(p, (0, 2, 1, 3)):
        return False
    for (a, b, c, d) in C.occurrences((1, 0, 3, 2), p):
        if not any(p[a] < p[m] < p[d] for m in range(b + 1, c)):
            return False
    return True


def dihedral(p):
    n = len(p)
    if n <= 2:
        return False  # convention stated in the library's docstring
    return any(all(p[i] == (s * i + c) % n for i in range(n)) for s in (1, -1) for c in range(n))


def alternating(p):
    n = len(p)
    if n == 0:
        return True
    if n < 3:
        return n % 2 == 1  # convention stated in the library's docstring
    return sum(1 for i in range(n) for j in range(i + 1, n) if p[i] > p[j]) % 2 == 0


def lis_len(seq):
    best = []
    for i, v in enumerate(seq):
        best.append(1 + max([best[j] for j in range(i) if seq[j] < v], default=0))
    return max(best, default=0)


def greene_rows(p, rows=2):
    """(lambda_1, lambda_2) of the RSK shape via Greene's theorem: lambda_1+..+lambda_k = the largest
    subsequence that has no decreasing subsequence of length k+1."""
    l1 = lis_len(p)
    best2 = 0
    n = len(p)
    neg = lambda s: [-v for v in s]  # noqa: E731
    for r in range(n, -1, -1):
        if r <= best2:
            break
        for sub in itertools.combinations(range(n), r):
            seq = [p[i] for i in sub]
            if lis_len(neg(seq)) <= 2:
                best2 = r
                break
    return l1, best2 - l1


def yt_contains(p, shape):
    l1, l2 = greene_rows(p)
    rows = [l1, l2]
    return all(rows[i] >= s for i, s in enumerate(shape))


def lds_len(seq):
    return lis_len([-v for v in seq])


def second_row_at_least_2(p):
    """lambda_2 >= 2 in the RSK shape, by Greene's theorem: some subsequence of length lambda_1 + 2 has no
    decreasing subsequence of length 3 (it is then a union of two increasing subsequences)"""
    n, l1 = len(p), lis_len(p)
    if l1 + 2 > n:
        return False
    return any(lds_len([p[i] for i in sub]) <= 2 for sub in itertools.combinations(range(n), l1 + 2))


def yt_contains_22(p):
    return second_row_at_least_2(p)


def yt_contains_32(p):
    return lis_len(p) >= 3 and second_row_at_least_2(p)


def bkv_sortable(p, patterns=()):
    """Two stacks in series, greedy (arXiv 1907.08142 / 2004.01812): the next input element enters the RIGHT stack if that
    stack, read from the top down, still avoids every pattern; otherwise the top of the right stack moves to the LEFT stack
    if the left stack stays increasing from the top down; otherwise the top of the left stack is output.  Sortable iff the
    output is 0, 1, ..., n-1.  (Second implementation with plain lists; containment by the definitional census.)"""
    inp = list(p)
    right, left, out = [], [], []  # tops at the END of the lists
    pos = 0
    n = len(inp)
    while len(out) < n:
        if pos < n:
            cand = right + [inp[pos]]
            top_down = tuple(reversed(cand))
            if not any(C.contains(C.std(top_down), tuple(q)) for q in patterns):
                right.append(inp[pos])
                pos += 1
                continue
        if right and (not left or right[-1] < left[-1]):
            left.append(right.pop())
            continue
        if not left:
            return False  # nothing can move: the machine is stuck
        out.append(left.pop())
        if out[-1] != len(out) - 1:
            return False
    return True


def contains3(p, pat):
    """does p contain the length-3 pattern pat?  O(n^2): for every middle position take the extremal admissible
    left value and look for an admissible right value on the correct side of it."""
    a, b, c = pat
    n = len(p)
    for j in range(1, n - 1):
        v = p[j]
        left = [x for x in p[:j] if (x < v) == (a < b)]
        right = [z for z in p[j + 1:] if (z < v) == (c < b)]
        if not left or not right:
            continue
        if a < c:
            if min(left) < max(right):
                return True
        elif max(left) > min(right):
            return True
    return False


def max_tree_height(p):
    """height of the tree obtained by splitting a sequence at its maximum, recursively (= the recursion depth a
    'split at the maximum' formulation of stack sorting needs); computed with an explicit stack"""
    best, todo = 0, [(list(p), 1)]
    while todo:
        seq, d = todo.pop()
        if not seq:
            continue
        best = max(best, d)
        if len(seq) == 1:
            continue
        i = max(range(len(seq)), key=seq.__getitem__)
        todo.append((seq[:i], d + 1))
        todo.append((seq[i + 1:], d + 1))
    return best


def recursion_depth_needed(label, p):
    """nesting depth of the recursive formulations used for the sorting devices, by family of entry point"""
    p = tuple(p)
    if label in ("bubble_sort", "bubble_sortable"):
        return sum(1 for i, v in enumerate(p) if all(x < v for x in p[:i])) if len(p) < 200 else len({max(p[: i + 1]) for i in range(0, len(p), 1)})
    if label in ("quick_sort", "quick_sortable"):
        # split at the last strong fixed point, recursively on both sides
        best, todo = 0, [(list(p), 1)]
        while todo:
            seq, d = todo.pop()
            if not seq:
                continue
            best = max(best, d)
            sfp = _sfp_fast(seq)
            if sfp:
                i = sfp[-1]
                todo.append((seq[:i], d + 1))
                todo.append((seq[i + 1:], d + 1))
        return best
    passes = {"stack_sort": 1, "stack_sortable": 1, "west_2_stack_sortable": 2, "west_3_stack_sortable": 3, "count_stack_sorts": 10 ** 9}.get(label, 0)
    best, cur = 0, p
    while passes > 0:
        best = max(best, max_tree_height(cur))
        if best >= 900 or is_id(cur):
            break
        cur = stack_pass(cur)
        passes -= 1
    return best


def _sfp_fast(seq):
    n = len(seq)
    pre, suf = [None] * n, [None] * n
    m = -1
    for i, v in enumerate(seq):
        pre[i] = m
        m = max(m, v)
    m = 10 ** 18
    for i in range(n - 1, -1, -1):
        suf[i] = m
        m = min(m, seq[i])
    return [i for i, v in enumerate(seq) if pre[i] < v < suf[i]]
