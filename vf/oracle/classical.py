"""Reference model for classical patterns.  Plain tuples only; imports nothing from permuta.

Everything here is the slow definition: an occurrence of p in t is a strictly
increasing index tuple whose values are order-isomorphic to p."""
import functools
import itertools


def std(seq):
    """Standardisation with ties broken left to right (stable)."""
    seq = list(seq)
    order = sorted(range(len(seq)), key=lambda i: (seq[i], i))
    out = [0] * len(seq)
    for rank, i in enumerate(order):
        out[i] = rank
    return tuple(out)


def is_perm(t):
    return sorted(t) == list(range(len(t)))


def inv(p):
    out = [0] * len(p)
    for i, v in enumerate(p):
        out[v] = i
    return tuple(out)


def iso(values, p, pinv=None):
    """values (distinct) are order-isomorphic to p."""
    pinv = inv(p) if pinv is None else pinv
    prev = None
    for i in pinv:
        v = values[i]
        if prev is not None and not prev < v:
            return False
        prev = v
    return True


def occurrences(p, t, pcol=None, tcol=None):
    """All occurrences (index tuples) of p in t in lexicographic order."""
    k, n = len(p), len(t)
    if k == 0:
        return [()]
    if k > n:
        return []
    pinv = inv(p)
    out = []
    for idx in itertools.combinations(range(n), k):
        if iso([t[i] for i in idx], p, pinv):
            if pcol is not None and any(tcol[i] != pcol[j] for j, i in enumerate(idx)):
                continue
            out.append(idx)
    return out


@functools.lru_cache(maxsize=20000)
def census(t, k):
    """dict pattern -> ordered list of occurrences, for all patterns of length k at once."""
    out = {}
    n = len(t)
    for idx in itertools.combinations(range(n), k):
        out.setdefault(std([t[i] for i in idx]), []).append(idx)
    return out


def occ_cached(p, t):
    return census(tuple(t), len(p)).get(tuple(p), [])


def contains(t, p):
    k, n = len(p), len(t)
    if k == 0:
        return True
    if k > n:
        return False
    pinv = inv(p)
    for vals in itertools.combinations(t, k):
        if iso(vals, p, pinv):
            return True
    return False


def avoids_all(t, basis):
    return not any(contains(t, b) for b in basis)


def all_perms(n):
    return itertools.permutations(range(n))


def insert_max(p, pos):
    n = len(p)
    return p[:pos] + (n,) + p[pos:]


def av_levels(basis, N):
    """levels[n] = sorted list of avoiders of a *classical* basis of length n, n <= N.

    Built by inserting a new maximum anywhere (a class is closed under deleting the
    maximum) and testing every candidate by the definition."""
    basis = [tuple(b) for b in basis]
    levels = [[()] if avoids_all((), basis) else []]
    for n in range(1, N + 1):
        nxt = set()
        for p in levels[-1]:
            for pos in range(n):
                q = insert_max(p, pos)
                if q not in nxt and avoids_all(q, basis):
                    nxt.add(q)
        levels.append(sorted(nxt))
    return levels


def av_levels_brute(pred, N):
    """levels[n] = all t in S_n with pred(t)."""
    return [[t for t in all_perms(n) if pred(t)] for n in range(N + 1)]


def left_floor_ceiling(p):
    """For each i: (index of the largest smaller value to the left or -1,
    index of the smallest larger value to the left or -1)."""
    out = []
    for i, v in enumerate(p):
        fl = [j for j in range(i) if p[j] < v]
        ce = [j for j in range(i) if p[j] > v]
        out.append((max(fl, key=lambda j: p[j]) if fl else -1, min(ce, key=lambda j: p[j]) if ce else -1))
    return out


def pattern_details(p):
    n = len(p)
    out = []
    for v, (fl, ce) in zip(p, left_floor_ceiling(p)):
        out.append((fl, ce, v if fl == -1 else v - p[fl], n - v if ce == -1 else p[ce] - v))
    return out


def lexlen_key(p):
    return (len(p), tuple(p))


def contains_bt(t, p):
    """containment by backtracking over positions (same answer as contains(); for texts too long for the subset census)"""
    k, n = len(p), len(t)
    if k == 0:
        return True
    if k > n:
        return False
    # for pattern position j: the earlier pattern positions holding the next smaller / next larger value
    lower, upper = [], []
    for j in range(k):
        lo = [i for i in range(j) if p[i] < p[j]]
        hi = [i for i in range(j) if p[i] > p[j]]
        lower.append(max(lo, key=lambda i: p[i]) if lo else None)
        upper.append(min(hi, key=lambda i: p[i]) if hi else None)
    chosen = [0] * k

    def rec(j, start):
        if j == k:
            return True
        lo = t[chosen[lower[j]]] if lower[j] is not None else -1
        hi = t[chosen[upper[j]]] if upper[j] is not None else n
        for i in range(start, n - (k - j) + 1):
            if lo < t[i] < hi:
                chosen[j] = i
                if rec(j + 1, i + 1):
                    return True
        return False

    return rec(0, 0)
