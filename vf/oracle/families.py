"""Explicit families of simple permutations (Brignall-Huczynska-Vatter): parallel alternations and the wedge
simple permutations of type 1 and 2, by formula.  No table from the repository is used."""
from . import classical as C
from . import geometry as G


def insert_last(p, value):
    return tuple(v + (v >= value) for v in p) + (value,)


def parallel_alternation(m):
    """two parallel decreasing runs: the even values, then the odd values"""
    return tuple(range(2 * m - 2, -1, -2)) + tuple(range(2 * m - 1, 0, -2))


def wedge_peak(m):
    """the wedge alternation shaped like a peak on m points: odd values climb on the left, even values descend on the right"""
    return tuple(v for v in range(m) if v % 2 == 1) + tuple(v for v in range(m - 1, -1, -1) if v % 2 == 0)


def wedge_type_2(n):
    """peak-shaped wedge alternation on n-1 points plus one point on the far right just below the apex"""
    return insert_last(wedge_peak(n - 1), n - 2)


def wedge_side(m, upper_first):
    """the wedge alternation opening to the right on m points: entries alternate between an increasing upper arm
    and a decreasing lower arm"""
    upper_pos = [i for i in range(m) if (i % 2 == 0) == upper_first]
    lower_pos = [i for i in range(m) if (i % 2 == 0) != upper_first]
    L = len(lower_pos)
    out = [None] * m
    for k, i in enumerate(lower_pos):
        out[i] = L - 1 - k
    for k, i in enumerate(upper_pos):
        out[i] = L + k
    return tuple(out), L


def wedge_type_1(n, upper_first):
    """side wedge alternation on n-1 points plus one point on the far right at the height of the vertex"""
    w, L = wedge_side(n - 1, upper_first)
    return insert_last(w, L)


def orientations(p):
    return sorted({G.act_perm(m, p) for m in G.SYMS.values()})


FAMILIES = {
    "parallel_alternation": lambda size: [parallel_alternation((size + 1) // 2)],
    "wedge_type_1": lambda size: [wedge_type_1(size, True), wedge_type_1(size, False)],
    "wedge_type_2": lambda size: [wedge_type_2(size)],
}


def long_members(family, k):
    """members long enough that every permutation of length <= k that embeds in some member of the family
    (in that orientation) embeds in these"""
    size = 2 * k + 4
    out = set()
    for base in FAMILIES[family](size):
        out.update(orientations(base))
    return sorted(out)


def finite_for_family(family, basis):
    """no arbitrarily long member of the family (in any orientation) avoids the basis"""
    k = max(len(b) for b in basis)
    cont = C.contains if k <= 5 else C.contains_bt
    return all(any(cont(member, b) for b in basis) for member in long_members(family, k))
