"""Own automaton algorithms; reads only states / transitions / initial_state / final_states of a DFA object."""
import collections

DEAD = "__dead__"
ALPHABET = "ULDR"


def read(dfa):
    delta = {}
    for s, row in dfa.transitions.items():
        delta[s] = dict(row)
    return {"delta": delta, "init": dfa.initial_state, "finals": set(dfa.final_states)}


def step(A, s, c):
    if s == DEAD:
        return DEAD
    return A["delta"].get(s, {}).get(c, DEAD)


def accepts(A, word):
    s = A["init"]
    for c in word:
        s = step(A, s, c)
    return s in A["finals"]


def m_automaton():
    """the pin-sequence language M: letters alternate between vertical (U, D) and horizontal (L, R)"""
    delta = {"start": {}, "V": {}, "H": {}}
    for c in "UD":
        delta["start"][c] = "V"
        delta["H"][c] = "V"
    for c in "LR":
        delta["start"][c] = "H"
        delta["V"][c] = "H"
    return {"delta": delta, "init": "start", "finals": {"start", "V", "H"}}


def equivalent(A, B):
    """None if L(A) = L(B), else a shortest word on which they differ"""
    start = (A["init"], B["init"])
    seen = {start: ""}
    queue = collections.deque([start])
    while queue:
        a, b = queue.popleft()
        if (a in A["finals"]) != (b in B["finals"]):
            return seen[(a, b)]
        for c in ALPHABET:
            nxt = (step(A, a, c), step(B, b, c))
            if nxt not in seen:
                seen[nxt] = seen[(a, b)] + c
                queue.append(nxt)
    return None


def difference_graph(Mz, A):
    """reachable part of the product; accepting = in L(M) and not in L(A)"""
    start = (Mz["init"], A["init"])
    edges, seen, queue = {}, {start}, collections.deque([start])
    while queue:
        u = queue.popleft()
        edges[u] = []
        for c in ALPHABET:
            v = (step(Mz, u[0], c), step(A, u[1], c))
            edges[u].append(v)
            if v not in seen:
                seen.add(v)
                queue.append(v)
    acc = {u for u in seen if u[0] in Mz["finals"] and u[1] not in A["finals"]}
    return start, edges, acc


def difference_is_finite(Mz, A):
    """is L(M) \\ L(A) finite?  <=> no cycle through a state that is reachable and co-reachable (to an accepting state)"""
    start, edges, acc = difference_graph(Mz, A)
    rev = collections.defaultdict(list)
    for u, vs in edges.items():
        for v in vs:
            rev[v].append(u)
    useful, stack = set(acc), list(acc)
    while stack:
        v = stack.pop()
        for u in rev[v]:
            if u not in useful:
                useful.add(u)
                stack.append(u)
    # cycle detection (iterative DFS, colours) on the useful sub-graph
    colour = {}
    for root in useful:
        if root in colour:
            continue
        stack = [(root, iter([v for v in edges[root] if v in useful]))]
        colour[root] = 1
        while stack:
            u, it = stack[-1]
            for v in it:
                if colour.get(v) == 1:
                    return False
                if v not in colour:
                    colour[v] = 1
                    stack.append((v, iter([w for w in edges[v] if w in useful])))
                    break
            else:
                colour[u] = 2
                stack.pop()
    return True


def difference_counts(Mz, A, L):
    """number of words of each length 0..L in L(M) \\ L(A)"""
    start, edges, acc = difference_graph(Mz, A)
    cur = collections.Counter({start: 1})
    out = []
    for _ in range(L + 1):
        out.append(sum(n for u, n in cur.items() if u in acc))
        nxt = collections.Counter()
        for u, n in cur.items():
            for v in edges[u]:
                nxt[v] += n
        cur = nxt
    return out
