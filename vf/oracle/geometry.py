"""The eight symmetries of the square acting on point sets and on grid cells.

A permutation p of length n is drawn in the square [0, L]^2, L = n + 1, as the points
(i + 1, p[i] + 1); cell (x, y), 0 <= x, y <= n, is the unit square [x, x+1] x [y, y+1].
All coordinates are doubled so that cell centres are integral.  A symmetry is an
orthogonal 2x2 integer matrix applied about the centre of the square.  Nothing here
looks like the index formulas of the library."""

SYMS = {
    "id": ((1, 0), (0, 1)),
    "rot90cw": ((0, 1), (-1, 0)),  # (x, y) -> (y, -x)
    "rot180": ((-1, 0), (0, -1)),
    "rot90ccw": ((0, -1), (1, 0)),
    "flip_vertical_axis": ((-1, 0), (0, 1)),  # reverse
    "flip_horizontal_axis": ((1, 0), (0, -1)),  # complement
    "flip_diagonal": ((0, 1), (1, 0)),  # inverse
    "flip_antidiagonal": ((0, -1), (-1, 0)),
}


def mul(a, b):
    return tuple(tuple(sum(a[i][k] * b[k][j] for k in range(2)) for j in range(2)) for i in range(2))


def power(a, k):
    out = SYMS["id"]
    for _ in range(k):
        out = mul(a, out)
    return out


def apply_pt(m, pt, L):
    """pt in doubled coordinates; the centre of [0, L]^2 is (L, L) in doubled coordinates."""
    x, y = pt[0] - L, pt[1] - L
    return (m[0][0] * x + m[0][1] * y + L, m[1][0] * x + m[1][1] * y + L)


def perm_points(p):
    return [(2 * (i + 1), 2 * (v + 1)) for i, v in enumerate(p)]


def points_perm(pts):
    pts = sorted(pts)
    ys = sorted(y for _, y in pts)
    assert len(set(x for x, _ in pts)) == len(pts) and len(set(ys)) == len(pts)
    return tuple(ys.index(y) for _, y in pts)


def act_perm(m, p):
    L = len(p) + 1
    return points_perm([apply_pt(m, pt, L) for pt in perm_points(p)])


def act_cells(m, cells, n):
    L = n + 1
    out = set()
    for (x, y) in cells:
        cx, cy = apply_pt(m, (2 * x + 1, 2 * y + 1), L)
        out.add(((cx - 1) // 2, (cy - 1) // 2))
    return frozenset(out)


def act_mesh(m, p, shading):
    return act_perm(m, p), act_cells(m, shading, len(p))


def orbit_perm(p):
    return {act_perm(m, p) for m in SYMS.values()}


def orbit_mesh(p, s):
    return {act_mesh(m, p, s) for m in SYMS.values()}


def key(p):
    return (len(p), tuple(p))


def orbit_sets(perms):
    """the orbit of a collection of permutations; each image sorted by (length, lex)."""
    return {tuple(sorted((act_perm(m, p) for p in perms), key=key)) for m in SYMS.values()}


def lex_min_set(perms):
    return min(orbit_sets(perms), key=lambda tup: [key(p) for p in tup])
