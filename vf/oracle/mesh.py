"""Reference model for mesh / bivincular patterns.  A mesh pattern is (p, S) with p a
tuple and S a frozenset of cells (x, y), 0 <= x, y <= len(p).  Imports nothing from permuta.

Cell (x, y) of the grid drawn through an occurrence o in t: the points (j, t[j]) with
exactly x occurrence positions to their left and exactly y occurrence values below."""
import itertools

from . import classical as C


def cell_of(j, tj, idx, vals_sorted):
    x = sum(1 for i in idx if i < j)
    y = sum(1 for v in vals_sorted if v < tj)
    return (x, y)


def occurrence_ok(shading, t, idx):
    if not shading:
        return True
    inocc = set(idx)
    vals = sorted(t[i] for i in idx)
    for j, tj in enumerate(t):
        if j in inocc:
            continue
        if cell_of(j, tj, idx, vals) in shading:
            return False
    return True


def occurrences(p, shading, t):
    return [idx for idx in C.occ_cached(p, t) if occurrence_ok(shading, t, idx)]


def contains(t, p, shading):
    for idx in C.occ_cached(p, t):
        if occurrence_ok(shading, t, idx):
            return True
    return False


def patt_contained(t, patt):
    """patt is either a plain tuple (classical) or (tuple, frozenset)."""
    if isinstance(patt, tuple) and (len(patt) != 2 or not isinstance(patt[1], (set, frozenset))):
        return C.contains(t, patt)
    return contains(t, patt[0], patt[1])


def avoids_all(t, patts):
    return not any(patt_contained(t, q) for q in patts)


# ---- bivincular by the adjacency definition (not by shading) ---------------------------
def biv_ok(k, adj_idx, adj_val, t, idx):
    n = len(t)
    vals = sorted(t[i] for i in idx)
    for x in adj_idx:
        if x == 0:
            if k and idx[0] != 0:
                return False
            if k == 0 and n != 0:
                return False
        elif x == k:
            if idx[k - 1] != n - 1:
                return False
        else:
            if idx[x] != idx[x - 1] + 1:
                return False
    for y in adj_val:
        if y == 0:
            if k and vals[0] != 0:
                return False
            if k == 0 and n != 0:
                return False
        elif y == k:
            if vals[k - 1] != n - 1:
                return False
        else:
            if vals[y] != vals[y - 1] + 1:
                return False
    return True


def biv_occurrences(p, adj_idx, adj_val, t):
    k = len(p)
    return [idx for idx in C.occ_cached(p, t) if biv_ok(k, adj_idx, adj_val, t, idx)]


def biv_shading(k, adj_idx, adj_val):
    s = set()
    for x in adj_idx:
        s.update((x, y) for y in range(k + 1))
    for y in adj_val:
        s.update((x, y) for x in range(k + 1))
    return frozenset(s)


# ---- region semantics of an induced sub-pattern (C06) -----------------------------------
def region_cells(p, I, x, y):
    """Original cells making up cell (x, y) of the pattern induced on positions I of p.

    Induced column x spans the original columns strictly between chosen positions
    I[x-1] and I[x] (with -1 and len(p) as walls), i.e. original columns
    I[x-1]+1 .. I[x]; likewise rows through the sorted chosen values."""
    n = len(p)
    I = sorted(I)
    vs = sorted(p[i] for i in I)
    left = (I[x - 1] + 1) if x > 0 else 0
    right = I[x] if x < len(I) else n
    low = (vs[y - 1] + 1) if y > 0 else 0
    up = vs[y] if y < len(vs) else n
    return [(cx, cy) for cx in range(left, right + 1) for cy in range(low, up + 1)], (left, right, low, up)


def region_has_point(p, bounds):
    """A point (j, p[j]) lies strictly inside the region spanning original columns
    left..right and rows low..up iff left <= j < right and low <= p[j] < up
    (point j sits on the grid line between columns j and j+1)."""
    left, right, low, up = bounds
    return any(left <= j < right and low <= p[j] < up for j in range(len(p)))


def induced(p, shading, I):
    I = sorted(I)
    k = len(I)
    q = C.std([p[i] for i in I])
    S = set()
    for x in range(k + 1):
        for y in range(k + 1):
            cells, bounds = region_cells(p, I, x, y)
            if all(c in shading for c in cells) and not region_has_point(p, bounds):
                S.add((x, y))
    return q, frozenset(S)


def insert_point(p, cell):
    """The permutation obtained by adding a point in cell (x, y) of p."""
    x, y = cell
    return tuple([v if v < y else v + 1 for v in p[:x]] + [y] + [v if v < y else v + 1 for v in p[x:]])


def all_shadings(k):
    cells = [(x, y) for x in range(k + 1) for y in range(k + 1)]
    for r in range(len(cells) + 1):
        for c in itertools.combinations(cells, r):
            yield frozenset(c)


# ---- mesh pattern inside mesh pattern (by the region semantics above) ----------------------
def as_mesh(q):
    """plain classical tuple -> unshaded mesh pattern"""
    if isinstance(q, tuple) and len(q) == 2 and isinstance(q[1], (set, frozenset)):
        return q
    return (tuple(q), frozenset())


def occurrences_in_mesh(P, Q):
    (p, S), (q, T) = as_mesh(P), as_mesh(Q)
    out = []
    for occ in C.occurrences(p, q):
        if S <= induced(q, T, occ)[1]:
            out.append(occ)
    return out


def mesh_contains_mesh(Q, P):
    return bool(occurrences_in_mesh(P, Q))
