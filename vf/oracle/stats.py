"""Permutation statistics written from their definitions (plain tuples, 0-based)."""
import itertools
import math

from . import classical as C
from . import sorting as SO


def inversions(p):
    return [(i, j) for i in range(len(p)) for j in range(i + 1, len(p)) if p[i] > p[j]]


def non_inversions(p):
    return [(i, j) for i in range(len(p)) for j in range(i + 1, len(p)) if p[i] < p[j]]


def descents(p, step=None):
    return [i for i in range(len(p) - 1) if (p[i] > p[i + 1] if step is None else p[i] - p[i + 1] == step)]


def ascents(p, step=None):
    return [i for i in range(len(p) - 1) if (p[i] < p[i + 1] if step is None else p[i + 1] - p[i] == step)]


def peaks(p):
    return [i for i in range(1, len(p) - 1) if p[i - 1] < p[i] > p[i + 1]]


def valleys(p):
    return [i for i in range(1, len(p) - 1) if p[i - 1] > p[i] < p[i + 1]]


def bends(p):
    return sorted(peaks(p) + valleys(p))


def pinnacles(p):
    return [p[i] for i in peaks(p)]


def ltrmin(p):
    return [i for i in range(len(p)) if all(p[j] > p[i] for j in range(i))]


def ltrmax(p):
    return [i for i in range(len(p)) if all(p[j] < p[i] for j in range(i))]


def rtlmin(p):
    return [i for i in range(len(p)) if all(p[j] > p[i] for j in range(i + 1, len(p)))]


def rtlmax(p):
    return [i for i in range(len(p)) if all(p[j] < p[i] for j in range(i + 1, len(p)))]


def fixed_points(p):
    return [i for i in range(len(p)) if p[i] == i]


def strong_fixed_points(p):
    """fixed points that are larger than everything before and smaller than everything after"""
    return [i for i in fixed_points(p) if all(p[j] < p[i] for j in range(i)) and all(p[j] > p[i] for j in range(i + 1, len(p)))]


def cycles(p):
    """set of cycles, each as a frozenset plus the cyclic order starting anywhere"""
    seen, out = set(), []
    for s in range(len(p)):
        if s in seen:
            continue
        cyc, x = [], s
        while x not in seen:
            seen.add(x)
            cyc.append(x)
            x = p[x]
        out.append(cyc)
    return out


def order(p):
    out = 1
    for c in cycles(p):
        out = out * len(c) // math.gcd(out, len(c))
    return out


def lis(p):
    best = [1] * len(p)
    for i in range(len(p)):
        for j in range(i):
            if p[j] < p[i]:
                best[i] = max(best[i], best[j] + 1)
    return max(best, default=0)


def lds(p):
    return lis(tuple(-v for v in p))


def runs(p, up=True):
    """maximal contiguous monotone segments as (start, length)"""
    out, i, n = [], 0, len(p)
    while i < n:
        j = i
        while j + 1 < n and ((p[j] < p[j + 1]) if up else (p[j] > p[j + 1])):
            j += 1
        out.append((i, j - i + 1))
        i = j + 1
    return out


def longest_runs(p, up=True):
    rs = runs(p, up)
    if not rs:
        return (0, [])
    m = max(l for _, l in rs)
    return (m, [s for s, l in rs if l == m])


def depth(p):
    return sum(v - i for i, v in enumerate(p) if v > i)


def bounces(p):
    """FindStat St000133, re-derived with 1-based positions: b1 = position of the value 1; next bounce = the
    rightmost position among the values 1..b+1; stop at n; statistic = sum (n - b)."""
    n = len(p)
    if n == 0:
        return 0
    pos = {v + 1: i + 1 for i, v in enumerate(p)}  # 1-based value -> 1-based position
    b = pos[1]
    total = n - b
    while b < n:
        b = max(pos[v] for v in range(1, b + 2))
        total += n - b
    return total


def max_drop(p):
    return max([v - i for i, v in enumerate(p)] + [0]) if p else 0


def is_prime(m):
    return m >= 2 and all(m % d for d in range(2, int(m ** 0.5) + 1))


def column_sum_primes(p):
    return sum(1 for i, v in enumerate(p) if is_prime((i + 1) + (v + 1)))


def holeyness(p):
    n = len(p)

    def delta(s):
        return sum(1 for x in s if x + 1 not in s)

    best = None
    for r in range(n + 1):
        for sub in itertools.combinations(range(n), r):
            s = set(sub)
            val = delta({p[i] for i in s}) - delta(s)
            best = val if best is None else max(best, val)
    return best


def passes(p, device):
    k, cur = 0, tuple(p)
    ident = tuple(range(len(p)))
    while cur != ident:
        cur = device(cur)
        k += 1
        if k > 10 * len(p) + 10:
            raise RuntimeError("device does not sort")
    return k


def cyclic_peaks(p):
    return [i for i in range(len(p)) if i < p[i] and p[i] > p[p[i]]]


def cyclic_valleys(p):
    return [i for i in range(len(p)) if i > p[i] and p[i] < p[p[i]]]


def double_excedances(p):
    return [i for i in range(len(p)) if i < p[i] < p[p[i]]]


def double_drops(p):
    return [i for i in range(len(p)) if i > p[i] > p[p[i]]]


# statistics 28-31: the implemented reading (step of exactly two, intersected with records); see DESIGN §3
def foremaxima(p):
    return sorted(set(ascents(p, 2)) & set(ltrmax(p)))


def afterminima(p):
    return sorted(set(ascents(p, 2)) & set(rtlmin(p)))


def aftermaxima(p):
    return sorted(set(descents(p, 2)) & set(rtlmax(p)))


def foreminima(p):
    return sorted(set(descents(p, 2)) & set(ltrmin(p)))


def bonds(p, kind="any"):
    return [i for i in range(len(p) - 1)
            if (p[i + 1] - p[i] == 1 and kind in ("any", "inc")) or (p[i] - p[i + 1] == 1 and kind in ("any", "dec"))]


def min_gapsize(p):
    return min(abs(i - j) + abs(p[i] - p[j]) for i in range(len(p)) for j in range(i + 1, len(p)))


def rank_encoding(p):
    return [sum(1 for j in range(i + 1, len(p)) if p[j] < p[i]) for i in range(len(p))]


def layers(p, buggy=False):
    """Peel RTL-maxima u LTR-minima of the remaining sequence until nothing is left; each layer is reported as the
    sorted positions *within the remaining sequence*.  buggy=True reproduces known finding K2: a left-to-right
    minimum is only recognised while its value is smaller than the length of the remainder."""
    seq = list(p)
    out = []
    while seq:
        n = len(seq)
        rmax = [i for i in range(n) if all(seq[j] < seq[i] for j in range(i + 1, n))]
        if buggy:
            lmin, cur = [], n
            for i, v in enumerate(seq):
                if v < cur:
                    cur = v
                    lmin.append(i)
        else:
            lmin = [i for i in range(n) if all(seq[j] > seq[i] for j in range(i))]
        layer = sorted(set(rmax) | set(lmin))
        out.append(layer)
        seq = [v for i, v in enumerate(seq) if i not in set(layer)]
    return out


def maximal_decreasing_run(p):
    """length of the longest run n-1, n-2, ... of consecutive values appearing left to right such that ... (as the
    docstring: longest decreasing run of consecutive elements starting from the largest, that forms the pattern)"""
    raise NotImplementedError


def pattern_counts(p, k):
    out = {}
    for vals in itertools.combinations(p, k):
        q = C.std(vals)
        out[q] = out.get(q, 0) + 1
    return out


NAMED = {
    "Number of inversions": lambda p: len(inversions(p)),
    "Number of non-inversions": lambda p: len(non_inversions(p)),
    "Major index": lambda p: sum(i + 1 for i in descents(p)),
    "Number of descents": lambda p: len(descents(p)),
    "Number of ascents": lambda p: len(ascents(p)),
    "Number of peaks": lambda p: len(peaks(p)),
    "Number of valleys": lambda p: len(valleys(p)),
    "Number of cycles": lambda p: len(cycles(p)),
    "Number of left-to-right minimas": lambda p: len(ltrmin(p)),
    "Number of left-to-right maximas": lambda p: len(ltrmax(p)),
    "Number of right-to-left minimas": lambda p: len(rtlmin(p)),
    "Number of right-to-left maximas": lambda p: len(rtlmax(p)),
    "Number of fixed points": lambda p: len(fixed_points(p)),
    "Order": order,
    "Longest increasing subsequence": lis,
    "Longest decreasing subsequence": lds,
    "Depth": depth,
    "Number of bounces": bounces,
    "Maximum drop size": max_drop,
    "Number of primes in the column sums": column_sum_primes,
    "Holeyness of a permutation": holeyness,
    "Number of stack-sorts needed": lambda p: passes(p, SO.stack_pass),
    "Number of pop-stack-sorts needed": lambda p: passes(p, SO.pop_stack_pass),
    "Number of pinnacles": lambda p: len(pinnacles(p)),
    "Number of cyclic peaks": lambda p: len(cyclic_peaks(p)),
    "Number of cyclic valleys": lambda p: len(cyclic_valleys(p)),
    "Number of double excedance": lambda p: len(double_excedances(p)),
    "Number of double drops": lambda p: len(double_drops(p)),
    "Number of foremaxima": lambda p: len(foremaxima(p)),
    "Number of afterminima": lambda p: len(afterminima(p)),
    "Number of aftermaxima": lambda p: len(aftermaxima(p)),
    "Number of foreminima": lambda p: len(foreminima(p)),
}
