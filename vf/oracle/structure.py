"""Reference definitions for structural operations on permutations (plain tuples)."""
import itertools

from . import classical as C


def from_points(pts):
    """permutation of a point set with distinct x and distinct y"""
    pts = sorted(pts)
    ys = sorted(y for _, y in pts)
    return tuple(ys.index(y) for _, y in pts)


def direct_sum(*ps):
    pts, off = [], 0
    for p in ps:
        pts += [(off + i, off + v) for i, v in enumerate(p)]
        off += len(p)
    return from_points(pts)


def skew_sum(*ps):
    pts, xoff = [], 0
    total = sum(len(p) for p in ps)
    yoff = total
    for p in ps:
        yoff -= len(p)
        pts += [(xoff + i, yoff + v) for i, v in enumerate(p)]
        xoff += len(p)
    return from_points(pts)


def compose(*ps):
    """(p1 o p2 o ... o pk)(i) = p1(p2(...pk(i)))"""
    n = len(ps[0])
    out = []
    for i in range(n):
        for p in reversed(ps):
            i = p[i]
        out.append(i)
    return tuple(out)


def inverse(p):
    return C.inv(p)


def insert(p, index, value):
    """the unique permutation with `value` at position `index` whose other entries are order-isomorphic to p"""
    n = len(p)
    for cand_rest in [p]:
        out = [v + (v >= value) for v in cand_rest]
        out.insert(index, value)
    out = tuple(out)
    assert C.is_perm(out) and out[index] == value and C.std(out[:index] + out[index + 1:]) == tuple(p)
    return out


def remove_index(p, i):
    return C.std(p[:i] + p[i + 1:])


def remove_value(p, v):
    return C.std([x for x in p if x != v])


def inflate(p, comps):
    """comps[i] replaces the point (i, p[i]); None = a single point; () = the point vanishes"""
    size = [1 if c is None else len(c) for c in comps]
    pts = []
    for i, v in enumerate(p):
        xoff = sum(size[j] for j in range(len(p)) if j < i)
        yoff = sum(size[j] for j in range(len(p)) if p[j] < v)
        block = (0,) if comps[i] is None else comps[i]
        pts += [(xoff + a, yoff + b) for a, b in enumerate(block)]
    return from_points(pts)


def shift_right(p, k):
    n = len(p)
    if n == 0:
        return tuple(p)
    out = [None] * n
    for i, v in enumerate(p):
        out[(i + k) % n] = v
    return tuple(out)


def shift_up(p, k):
    n = len(p)
    return tuple((v + k) % n for v in p) if n else tuple(p)


def is_interval(p, start, length):
    vals = p[start:start + length]
    return max(vals) - min(vals) == length - 1


def intervals(p):
    """proper intervals: (start, length) with 2 <= length < n"""
    n = len(p)
    return [(s, l) for l in range(2, n) for s in range(0, n - l + 1) if is_interval(p, s, l)]


def block_decomposition(p):
    n = len(p)
    out = [[] for _ in range(n)]
    for s, l in intervals(p):
        out[l].append(s)
    return [sorted(x) for x in out]


def is_simple(p):
    return not intervals(p)


def sum_indecomposable(p):
    return not any(sorted(p[:i]) == list(range(i)) for i in range(1, len(p)))


def skew_indecomposable(p):
    n = len(p)
    return not any(sorted(p[:i]) == list(range(n - i, n)) for i in range(1, n))


def sum_components(p):
    out, start = [], 0
    for i in range(1, len(p) + 1):
        if sorted(p[:i]) == list(range(i)) and i > start:
            # cut at every prefix that is itself a permutation
            out.append(C.std(p[start:i]))
            start = i
    return out


def skew_components(p):
    n = len(p)
    out, start = [], 0
    for i in range(1, n + 1):
        if sorted(p[:i]) == list(range(n - i, n)) and i > start:
            out.append(C.std(p[start:i]))
            start = i
    return out


def monotone_blocks(p, kind, with_ones):
    """maximal blocks of consecutive positions whose values go up by one ('inc'), down by one ('dec') or either ('any')"""
    n = len(p)
    out = []
    i = 0
    while i < n:
        j = i
        d = None
        while j + 1 < n:
            step = p[j + 1] - p[j]
            ok = (step == 1 and kind in ("inc", "any")) or (step == -1 and kind in ("dec", "any"))
            if not ok or (d is not None and step != d):
                break
            d = step
            j += 1
        if j > i or with_ones:
            out.append((i, j))
        i = j + 1
    return out


def contract(p, kind):
    return C.std([p[s] for s, _ in monotone_blocks(p, kind, True)])


def children(p):
    return {remove_index(p, i) for i in range(len(p))}


def covers(p):
    n = len(p)
    return {insert(p, i, v) for i in range(n + 1) for v in range(n + 1)}
