"""Pin sequences with exact rationals, written from the wording of the property.

The origin p0 = (0, 0) is not part of the permutation.  A numeral places an independent pin in the
named quadrant beyond the bounding box of all earlier pins (origin included); a direction letter places
a pin outside that bounding box on the named side which separates the previous pin from all earlier
ones, i.e. lies strictly between the previous pin and the box of the earlier ones in the other coordinate."""
import functools
import itertools
from fractions import Fraction as F

from . import classical as C

DIRS = "ULDR"
QUADS = "1234"
QSIGN = {"1": (1, 1), "2": (-1, 1), "3": (-1, -1), "4": (1, -1)}
VERT, HORI = "UD", "LR"


class BadWord(Exception):
    pass


def next_pin(pts, ch, word=""):
    """the pin that letter ch adds to the points placed so far (pts[0] is the origin)"""
    xs, ys = [p[0] for p in pts], [p[1] for p in pts]
    if ch in QUADS:
        sx, sy = QSIGN[ch]
        x = max(xs) + 1 if sx > 0 else min(xs) - 1
        y = max(ys) + 1 if sy > 0 else min(ys) - 1
    else:
        if len(pts) < 2:
            raise BadWord(word)
        lx, ly = pts[-1]
        exs, eys = xs[:-1], ys[:-1]
        if ch in VERT:
            if lx > max(exs):
                x = (2 * lx + max(exs)) / 3
            elif lx < min(exs):
                x = (2 * lx + min(exs)) / 3
            else:
                raise BadWord(word)
            y = max(ys) + 1 if ch == "U" else min(ys) - 1
        else:
            if ly > max(eys):
                y = (2 * ly + max(eys)) / 3
            elif ly < min(eys):
                y = (2 * ly + min(eys)) / 3
            else:
                raise BadWord(word)
            x = max(xs) + 1 if ch == "R" else min(xs) - 1
    return (x, y)


@functools.lru_cache(maxsize=100000)
def place(word):
    """list of pins (x, y) for p1..pn"""
    pts = [(F(0), F(0))]
    for ch in word:
        pts.append(next_pin(pts, ch, word))
    return tuple(pts[1:])


@functools.lru_cache(maxsize=None)
def pin_perms(n):
    """the set of pin permutations of length n (permutations of some pin word), by depth-first extension of placements"""
    out = set()

    def grow(pts, last):
        if len(pts) == n + 1:
            out.add(perm_of_points(pts[1:]))
            return
        for ch in QUADS + DIRS:
            if last and ((last in VERT and ch in VERT) or (last in HORI and ch in HORI)):
                continue
            if len(pts) == 1 and ch not in QUADS:
                continue
            try:
                q = next_pin(pts, ch)
            except BadWord:
                continue
            grow(pts + [q], ch)

    grow([(F(0), F(0))], "")
    return frozenset(out)


def perm_of_points(pts):
    pts = sorted(pts)
    ys = sorted(p[1] for p in pts)
    if len(set(p[0] for p in pts)) != len(pts) or len(set(ys)) != len(pts):
        raise BadWord("coincident coordinates")
    return tuple(ys.index(p[1]) for p in pts)


def perm_of_word(word):
    return perm_of_points(place(word))


def valid_words(n):
    """all pin words of length n: start with a numeral, never two vertical or two horizontal letters in a row"""
    out = []
    for w in itertools.product(QUADS + DIRS, repeat=n):
        if n and w[0] not in QUADS:
            continue
        if any((a in VERT and b in VERT) or (a in HORI and b in HORI) for a, b in zip(w, w[1:])):
            continue
        out.append("".join(w))
    return out


def is_strict(word):
    return word == "" or (word[0] in QUADS and all(c in DIRS for c in word[1:]))


@functools.lru_cache(maxsize=400000)
def quadrant_geo(word, i):
    """quadrant of pin p_{i+1} (the pin placed by word[i]) with respect to the origin"""
    try:  # pins never move once placed: the i-th pin of the whole word is the i-th pin of the prefix
        x, y = place(word)[i]
    except BadWord:
        x, y = place(word[: i + 1])[i]
    for q, (sx, sy) in QSIGN.items():
        if (x > 0) == (sx > 0) and (y > 0) == (sy > 0):
            return q
    raise BadWord(word)


def factors(word):
    out = []
    for ch in word:
        if ch in QUADS or not out:
            out.append(ch)
        else:
            out[-1] += ch
    return out


def m_words(n):
    """words of the pin-sequence language M of length n: letters alternate vertical / horizontal"""
    out = []
    for w in itertools.product(DIRS, repeat=n):
        if all((a in VERT) != (b in VERT) for a, b in zip(w, w[1:])):
            out.append("".join(w))
    return out


def in_m(w):
    return all(c in DIRS for c in w) and all((a in VERT) != (b in VERT) for a, b in zip(w, w[1:]))


QUAD_OF_PAIR = {frozenset("RU"): "1", frozenset("LU"): "2", frozenset("LD"): "3", frozenset("RD"): "4"}


def m_to_sp(w):
    """first two letters of an M-word name the quadrant of the first pin"""
    return QUAD_OF_PAIR[frozenset(w[:2])] + w[2:]


def sp_to_m(u):
    """the M-words of a strict pin word (two for a lone numeral)"""
    pair = next(k for k, v in QUAD_OF_PAIR.items() if v == u[0])
    a, b = sorted(pair)
    cands = [a + b + u[1:], b + a + u[1:]]
    return sorted(c for c in cands if in_m(c))


# ---- word-level containment model (independent re-implementation, with the gap rule switchable) -------------
@functools.lru_cache(maxsize=400000)
def occ_sp(word, factor, start):
    k = len(factor)
    out = []
    for idx in range(start, len(word)):
        if word[idx + 1: idx + k] == factor[1:] and len(word) >= idx + k and quadrant_geo(word, idx) == factor[0]:
            out.append(idx)
    return out


@functools.lru_cache(maxsize=400000)
def word_contains(word, u, gap_rule=True):
    """is the pin word u found inside w?  gap_rule=False reproduces known finding K3 (a factor matched at a
    direction letter immediately after the previous match is accepted)."""
    fs = factors(u)

    def rec(j, start):
        if j == len(fs):
            return True
        for idx in occ_sp(word, fs[j], start):
            if gap_rule and j > 0 and word[idx] in DIRS and idx == start:
                continue
            if rec(j + 1, idx + len(fs[j])):
                return True
        return False

    return rec(0, 0)
