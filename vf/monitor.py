"""Monitors installed on the real functions of the working tree by attribute replacement.

* `Monitors.wrap(owner, name, post)`: call/return recorder at the client boundary; `post`
  (the oracle) sees (args, kwargs, result, exception) of every call, including internal
  calls the repository makes through attribute lookup.
* `Monitors.wrap_gen(...)`: the same for generator-returning functions through a proxy
  that yields the real items unchanged and reports the listing at exhaustion or the
  prefix at abandonment.
* `Reach`: sys.monitoring LINE events on chosen functions -> which statement lines of the
  anchored code actually executed (DISABLE after the first hit, so cost is negligible).
"""
import functools
import sys
import threading
import types

_tls = threading.local()


def in_monitor():
    return getattr(_tls, "depth", 0) > 0


class _Guard:
    """Oracle code may itself call the monitored API; nested observations are skipped."""

    def __enter__(self):
        _tls.depth = getattr(_tls, "depth", 0) + 1

    def __exit__(self, *a):
        _tls.depth -= 1


GUARD = _Guard()


class GenProxy:
    __slots__ = ("_it", "_items", "_done", "_cb")

    def __init__(self, it, cb):
        self._it = iter(it)
        self._items = []
        self._done = False
        self._cb = cb

    def __iter__(self):
        return self

    def __next__(self):
        try:
            item = next(self._it)
        except StopIteration:
            self._finish(True)
            raise
        except BaseException as exc:
            self._finish(False, exc)
            raise
        self._items.append(item)
        return item

    def _finish(self, exhausted, exc=None):
        if not self._done:
            self._done = True
            cb, self._cb = self._cb, None
            if cb is not None and not in_monitor():
                with GUARD:
                    cb(self._items, exhausted, exc)

    def close(self):
        self._finish(False)
        close = getattr(self._it, "close", None)
        if close:
            close()

    def throw(self, *exc_info):
        """generator protocol: an exception raised INTO the listing by its consumer (not a failure of the library)"""
        thrower = getattr(self._it, "throw", None)
        if thrower is None:
            self._finish(False)
            raise exc_info[0]
        try:
            item = thrower(*exc_info)
        except StopIteration:
            self._finish(True)
            raise
        except BaseException:
            self._finish(False)
            raise
        self._items.append(item)
        return item

    def send(self, value):
        sender = getattr(self._it, "send", None)
        if sender is None or value is None:
            return self.__next__()
        try:
            item = sender(value)
        except StopIteration:
            self._finish(True)
            raise
        except BaseException as exc:
            self._finish(False, exc)
            raise
        self._items.append(item)
        return item

    def __del__(self):
        try:
            self._finish(False)
        except Exception:
            pass


class Monitors:
    def __init__(self, ctx):
        self.ctx = ctx
        self.saved = []
        self._inherited = set()

    def _get(self, owner, name):
        if isinstance(owner, type) and name not in owner.__dict__:
            # inherited (a refactoring may have moved it to a base class): monitor it on the owner anyway
            for base in owner.__mro__[1:]:
                if name in base.__dict__:
                    raw = base.__dict__[name]
                    break
            else:
                raise AttributeError(f"{owner.__name__}.{name} does not exist")
            self._inherited.add((owner, name))
        else:
            raw = owner.__dict__[name] if isinstance(owner, type) else getattr(owner, name)
        kind = None
        fn = raw
        if isinstance(raw, classmethod):
            kind, fn = classmethod, raw.__func__
        elif isinstance(raw, staticmethod):
            kind, fn = staticmethod, raw.__func__
        return raw, kind, fn

    def _set(self, owner, name, raw, kind, new):
        self.saved.append((owner, name, raw))
        setattr(owner, name, kind(new) if kind else new)

    def wrap(self, owner, name, post, label=None, aliases=()):
        """post(args, kwargs, result, exc) runs after every call of owner.name."""
        raw, kind, fn = self._get(owner, name)
        label = label or f"{getattr(owner, '__name__', owner)}.{name}"
        ctx = self.ctx
        key = "calls." + label

        @functools.wraps(fn)
        def wrapper(*args, **kwargs):
            if in_monitor():
                return fn(*args, **kwargs)
            ctx.counters[key] += 1
            try:
                res = fn(*args, **kwargs)
            except BaseException as exc:
                with GUARD:
                    post(args, kwargs, None, exc)
                raise
            with GUARD:
                post(args, kwargs, res, None)
            return res

        wrapper.__vf_original__ = fn
        for attr in ("cache_clear", "cache_info"):  # memoised functions keep their cache controls
            if hasattr(fn, attr):
                setattr(wrapper, attr, getattr(fn, attr))
        self._set(owner, name, raw, kind, wrapper)
        for al in aliases:
            # an alias is wrapped around whatever IT is bound to (normally the same function)
            self.wrap(owner, al, post, label=f"{label}[alias {al}]")
        return wrapper

    def wrap_gen(self, owner, name, done, label=None, aliases=()):
        """done(args, kwargs, items, exhausted, exc) runs when the returned iterator is
        exhausted, closed, garbage collected or raises."""
        raw, kind, fn = self._get(owner, name)
        label = label or f"{getattr(owner, '__name__', owner)}.{name}"
        ctx = self.ctx
        key = "calls." + label

        @functools.wraps(fn)
        def wrapper(*args, **kwargs):
            if in_monitor():
                return fn(*args, **kwargs)
            ctx.counters[key] += 1
            it = fn(*args, **kwargs)
            return GenProxy(it, lambda items, ex, exc: done(args, kwargs, items, ex, exc))

        wrapper.__vf_original__ = fn
        self._set(owner, name, raw, kind, wrapper)
        for al in aliases:
            self.wrap_gen(owner, al, done, label=f"{label}[alias {al}]")
        return wrapper

    def uninstall(self):
        for owner, name, raw in reversed(self.saved):
            if (owner, name) in self._inherited:
                try:
                    delattr(owner, name)
                except AttributeError:
                    pass
            else:
                setattr(owner, name, raw)
        self.saved.clear()


def code_objects(fn):
    fn = getattr(fn, "__vf_original__", fn)
    fn = getattr(fn, "__func__", fn)
    code = fn.__code__
    out = []

    def rec(c):
        out.append(c)
        for k in c.co_consts:
            if isinstance(k, types.CodeType):
                rec(k)

    rec(code)
    return out


class Reach:
    """Which statement lines of the anchored functions executed during the run."""

    TOOL = 3

    def __init__(self):
        self.codes = {}
        self.hit = {}
        self.active = False

    def add(self, label, fn):
        self.codes[label] = code_objects(fn)
        self.hit.setdefault(label, set())

    def start(self):
        mon = sys.monitoring
        try:
            mon.use_tool_id(self.TOOL, "vf-reach")
        except ValueError:
            return
        by_code = {}
        for label, codes in self.codes.items():
            for c in codes:
                by_code[c] = label

        def on_line(code, line):
            label = by_code.get(code)
            if label is not None:
                self.hit[label].add((code.co_name, line))
            return mon.DISABLE

        mon.register_callback(self.TOOL, mon.events.LINE, on_line)
        for c in by_code:
            mon.set_local_events(self.TOOL, c, mon.events.LINE)
        self.active = True

    def stop(self):
        if self.active:
            mon = sys.monitoring
            for codes in self.codes.values():
                for c in codes:
                    mon.set_local_events(self.TOOL, c, 0)
            mon.register_callback(self.TOOL, mon.events.LINE, None)
            mon.free_tool_id(self.TOOL)
            self.active = False

    def report(self, ctx):
        for label, codes in self.codes.items():
            total = set()
            for c in codes:
                total.update((c.co_name, l) for (_, _, l) in c.co_lines() if l is not None and l != c.co_firstlineno)
            hit = self.hit[label] & total
            ctx.counters[f"reach.{label}.lines_hit"] += len(hit)
            ctx.counters[f"reach.{label}.lines_total"] = max(ctx.counters[f"reach.{label}.lines_total"], len(total))


def class_code_objects(cls, filename_suffix):
    """code objects (nested ones included) of every function defined in a class body, also when already wrapped"""
    out = []

    def rec(c):
        out.append(c)
        for k in c.co_consts:
            if isinstance(k, types.CodeType):
                rec(k)

    for _name, val in vars(cls).items():
        fn = getattr(val, "__vf_original__", val)
        fn = getattr(fn, "__func__", fn)
        fn = getattr(fn, "__vf_original__", fn)
        if isinstance(fn, types.FunctionType) and fn.__code__.co_filename.endswith(filename_suffix):
            rec(fn.__code__)
    return out


def module_code_objects(mod, filename_suffix):
    """code objects of the functions and of the methods of the classes defined in a module"""
    out = []
    for _name, val in vars(mod).items():
        fn = getattr(val, "__vf_original__", val)
        if isinstance(fn, types.FunctionType) and fn.__code__.co_filename.endswith(filename_suffix):
            out.extend(code_objects(fn))
        elif isinstance(val, type) and getattr(val, "__module__", None) == mod.__name__:
            out.extend(class_code_objects(val, filename_suffix))
    return out


def with_fault(injector, k, fn):
    """run fn() with a failpoint armed at the k-th statement; returns True if the fault fired (and was swallowed)"""
    injector.arm(k)
    try:
        fn()
        return False
    except InjectedFault:
        return True
    finally:
        injector.disarm()


class InjectedFault(BaseException):
    """Raised by the fault injector at a statement boundary of the monitored code (like an asynchronous
    KeyboardInterrupt / MemoryError arriving there)."""


class FaultInjector:
    """Source-free failpoints: a sys.monitoring LINE callback that raises InjectedFault at the k-th statement
    executed inside the chosen code objects after arm(k)."""

    TOOL = 5

    def __init__(self, codes):
        import dis

        self.codes = codes
        # Never inject on the line of a `with` statement: CPython re-visits that line when it leaves the block, just
        # before calling __exit__, and an exception raised from a LINE callback there would skip __exit__ - a state
        # no real exception can produce (the interpreter does not deliver asynchronous exceptions at that point).
        self.skip = set()
        for c in codes:
            for ins in dis.get_instructions(c):
                if ins.opname in ("BEFORE_WITH", "BEFORE_ASYNC_WITH") and ins.positions is not None:
                    self.skip.add((c, ins.positions.lineno))
        self.countdown = 0
        self.armed = False
        self.fired = 0
        self.where = None
        mon = sys.monitoring
        mon.use_tool_id(self.TOOL, "vf-fault")
        mon.register_callback(self.TOOL, mon.events.LINE, self._on_line)

    def _on_line(self, code, line):
        if self.armed and (code, line) not in self.skip:
            self.countdown -= 1
            if self.countdown <= 0:
                self.armed = False
                self.fired += 1
                self.where = (code.co_name, line)
                raise InjectedFault(f"injected at {code.co_name}:{line}")

    def arm(self, k):
        self.countdown, self.armed, self.where = k, True, None
        mon = sys.monitoring
        for c in self.codes:
            mon.set_local_events(self.TOOL, c, mon.events.LINE)

    def disarm(self):
        self.armed = False
        mon = sys.monitoring
        for c in self.codes:
            mon.set_local_events(self.TOOL, c, 0)

    def close(self):
        self.disarm()
        mon = sys.monitoring
        mon.register_callback(self.TOOL, mon.events.LINE, None)
        mon.free_tool_id(self.TOOL)


class YieldInjector:
    """sys.monitoring LINE callback that performs a seeded time.sleep(0) with probability p at statement boundaries of
    the chosen code objects: every statement boundary becomes a likely preemption point (never a place where the
    interpreter could not switch threads anyway)."""

    TOOL = 4

    def __init__(self, codes, seed=0, p=0.3):
        import random
        import time

        self.codes, self.p, self.rng, self.count, self._sleep = codes, p, random.Random(seed), 0, time.sleep
        mon = sys.monitoring
        mon.use_tool_id(self.TOOL, "vf-yield")
        mon.register_callback(self.TOOL, mon.events.LINE, self._on_line)

    def _on_line(self, code, line):
        if self.rng.random() < self.p:
            self.count += 1
            self._sleep(0)

    def on(self):
        for c in self.codes:
            sys.monitoring.set_local_events(self.TOOL, c, sys.monitoring.events.LINE)

    def off(self):
        for c in self.codes:
            sys.monitoring.set_local_events(self.TOOL, c, 0)

    def close(self):
        self.off()
        sys.monitoring.register_callback(self.TOOL, sys.monitoring.events.LINE, None)
        sys.monitoring.free_tool_id(self.TOOL)
