"""Verdict bookkeeping shared by every check: counters, distinct non-trivial cases,
samples, failures (with replayable cases), known-finding classification."""
import collections
import hashlib
import json
import os
import random
import time
import traceback

HOME = os.environ.get("VERIF_HOME", os.path.dirname(os.path.dirname(os.path.abspath(__file__))))
REPO = os.environ.get("VERIF_REPO", "/repo")
OUT = os.environ.get("VERIF_OUT", HOME)  # evidence/ and replays/ live here (overridden by the mutation self-test)

MAX_FAIL_KEPT = 40
MAX_SAMPLES = 8


def h64(obj) -> int:
    return int.from_bytes(hashlib.blake2b(repr(obj).encode(), digest_size=8).digest(), "big")


def load_known():
    path = os.path.join(HOME, "known_findings.json")
    with open(path) as fh:
        data = json.load(fh)
    return data


class Ctx:
    """One per process (main or shard worker)."""

    def __init__(self, prop, tier, seed, shard="main"):
        self.prop = prop
        self.tier = tier
        self.seed = int(seed)
        self.shard = shard
        self.rng = random.Random(f"{seed}/{prop}/{shard}")
        self.counters = collections.Counter()
        self.nontrivial = set()
        self.sets = collections.defaultdict(set)  # named sets of hashed observations, merged by union across shards
        self.names = collections.defaultdict(set)  # named sets of short strings kept verbatim (e.g. repository functions entered)
        self.samples = []
        self.failures = []
        self.nfail = 0
        self.known = {}  # key -> {"count": n, "example": str}
        self.inconclusive = []
        self.notes = []
        self.t0 = time.time()
        kf = load_known()
        self.open_keys = {
            e["key"] for e in kf.get("findings", []) if e.get("status") == "open" and prop in e["properties"]
        }

    # -- bookkeeping -----------------------------------------------------------------
    def ev(self, n=1):
        self.counters["evaluations"] += n

    def count(self, name, n=1):
        self.counters[name] += n

    def seen(self, name, key):
        """Record a distinct observation (e.g. an interleaving signature) under a named set."""
        self.sets[name].add(h64(key))

    def nt(self, key):
        """Record one distinct non-trivial case (by canonical key)."""
        self.nontrivial.add(h64(key))

    def sample(self, obj, force=False):
        if len(self.samples) < MAX_SAMPLES or force:
            self.samples.append(obj)

    def rsample(self, obj, p=0.001):
        if len(self.samples) < MAX_SAMPLES and self.rng.random() < p:
            self.samples.append(obj)

    def note(self, text):
        if len(self.notes) < 20 and text not in self.notes:
            self.notes.append(text)

    def inconc(self, text):
        if len(self.inconclusive) < 20:
            self.inconclusive.append(text)

    # -- verdicts ----------------------------------------------------------------------
    def fail(self, check, args, detail, known=None):
        """A discrepancy between the observed execution and the oracle.

        `check`/`args` name a replayable check (see CHECKS of the property module).
        `known` is a known-finding key *proved by the caller's classifier* to explain
        the discrepancy completely; it only suppresses when listed as open for this
        property in known_findings.json."""
        if known is not None and known in self.open_keys:
            ent = self.known.setdefault(known, {"count": 0, "example": None})
            ent["count"] += 1
            if ent["example"] is None:
                ent["example"] = f"{check}{json.dumps(args)[:200]}: {detail}"[:400]
            return
        self.nfail += 1
        if len(self.failures) < MAX_FAIL_KEPT:
            self.failures.append({"check": check, "args": args, "detail": str(detail)[:1500],
                                  "env": {"PYTHONHASHSEED": os.environ.get("PYTHONHASHSEED", ""), "python_optimize": int(not __debug__)}})

    def expect(self, cond, check, args, detail, known=None):
        self.ev()
        if not cond:
            self.fail(check, args, detail() if callable(detail) else detail, known)
        return cond

    def crashed(self, check, args, exc):
        self.fail(check, args, "unexpected exception: " + "".join(traceback.format_exception_only(type(exc), exc)).strip()
                  + " @ " + " <- ".join(f"{f.name}:{f.lineno}" for f in traceback.extract_tb(exc.__traceback__)[-4:]))

    # -- (de)serialisation for shard workers --------------------------------------------
    def dump(self):
        return {
            "counters": dict(self.counters),
            "nontrivial": sorted(self.nontrivial),
            "sets": {k: sorted(v) for k, v in self.sets.items()},
            "names": {k: sorted(v) for k, v in self.names.items()},
            "samples": self.samples,
            "failures": self.failures,
            "nfail": self.nfail,
            "known": self.known,
            "inconclusive": self.inconclusive,
            "notes": self.notes,
            "wall": time.time() - self.t0,
        }

    def merge(self, d):
        for k, v in d["counters"].items():
            if k.startswith(("reach.", "max.")):
                self.counters[k] = max(self.counters.get(k, 0), v)
            else:
                self.counters[k] += v
        self.nontrivial.update(d["nontrivial"])
        for k, v in d.get("sets", {}).items():
            self.sets[k].update(v)
        for k, v in d.get("names", {}).items():
            self.names[k].update(v)
        for s in d["samples"]:
            if len(self.samples) < MAX_SAMPLES:
                self.samples.append(s)
        for f in d["failures"]:
            if len(self.failures) < MAX_FAIL_KEPT:
                self.failures.append(f)
        self.nfail += d["nfail"]
        for k, v in d["known"].items():
            ent = self.known.setdefault(k, {"count": 0, "example": v["example"]})
            ent["count"] += v["count"]
        self.inconclusive.extend(d["inconclusive"])
        for n in d["notes"]:
            self.note(n)
