"""./check <ID> quick|thorough [--replay file]   (see /verif/check)"""
import importlib
import json
import os
import pickle
import subprocess
import sys
import tempfile
import threading
import time
from concurrent.futures import ThreadPoolExecutor

from . import core

EXIT_OK, EXIT_VIOLATION, EXIT_INCONCLUSIVE = 0, 1, 2


def load_prop(pid):
    return importlib.import_module(f"vf.props.{pid.lower()}")


def assert_repo():
    import permuta

    path = os.path.realpath(permuta.__file__)
    root = os.path.realpath(core.REPO)
    if not path.startswith(root + os.sep):
        print(f"INCONCLUSIVE: permuta imported from {path}, expected under {root}")
        sys.exit(EXIT_INCONCLUSIVE)


def worker(pid, tier, seed, spec_file, out_file):
    assert_repo()
    mod = load_prop(pid)
    with open(spec_file, "rb") as fh:
        spec = pickle.load(fh)
    ctx = core.Ctx(pid, tier, seed, shard=spec.get("name", "shard"))
    if os.environ.get("PYTHONHASHSEED", "0") != "0":
        ctx.count("env.shards_with_other_hashseed")
    if not __debug__:
        ctx.count("env.shards_with_asserts_disabled")
    entered = ctx.names["repository functions entered while the monitors were installed"]
    root = os.path.realpath(core.REPO) + os.sep
    mon = sys.monitoring
    try:  # which functions of the repository the workload actually drove (one event per code object, then disabled)
        mon.use_tool_id(mon.COVERAGE_ID, "vf-functions")

        def on_start(code, offset):
            fn = code.co_filename
            if fn.startswith(root) or os.path.realpath(fn).startswith(root):
                entered.add(f"{os.path.relpath(os.path.realpath(fn), root)}:{code.co_qualname}")
            return mon.DISABLE

        mon.register_callback(mon.COVERAGE_ID, mon.events.PY_START, on_start)
        mon.set_events(mon.COVERAGE_ID, mon.events.PY_START)
    except ValueError:
        pass
    try:
        if hasattr(mod, "setup"):
            mod.setup(ctx)
        mod.run(ctx, spec)
        if hasattr(mod, "teardown"):
            mod.teardown(ctx)
    except Exception as exc:  # never silently "held"
        import traceback

        frames = traceback.extract_tb(exc.__traceback__)
        if any(os.path.realpath(f.filename).startswith(os.path.realpath(core.REPO) + os.sep) for f in frames):
            ctx.crashed("shard", [spec.get("name", "?")], exc)  # escaped from the monitored code
        else:
            ctx.inconc(f"harness error in shard {spec.get('name')}: {exc!r} @ "
                       + " <- ".join(f"{f.name}:{f.lineno}" for f in frames[-4:]))
    with open(out_file, "wb") as fh:
        pickle.dump(ctx.dump(), fh)


def run_shards(pid, tier, seed, specs, ctx, timeout):
    tmp = tempfile.mkdtemp(prefix=f"vf-{pid}-")
    ncpu = int(os.environ.get("VERIF_JOBS", os.cpu_count() or 4))

    def one(i_spec):
        i, spec = i_spec
        sf, of = os.path.join(tmp, f"s{i}.spec"), os.path.join(tmp, f"s{i}.out")
        with open(sf, "wb") as fh:
            pickle.dump(spec, fh)
        # a shard may ask for extra interpreter flags (e.g. -O: the same workload with assert statements compiled away)
        cmd = [sys.executable, "-X", "dev", "-W", "ignore", *spec.get("python_flags", []), "-m", "vf.main", "--worker", pid, tier, str(seed), sf, of]
        t0 = time.time()
        try:
            # a shard may also ask for environment variables (e.g. another PYTHONHASHSEED: iteration order of sets of strings)
            res = subprocess.run(cmd, timeout=timeout, capture_output=True, text=True, env=dict(os.environ, **spec.get("env", {})))
        except subprocess.TimeoutExpired:
            return spec, None, f"watchdog: shard {spec.get('name')} exceeded {timeout}s", time.time() - t0
        if not os.path.exists(of):
            return spec, None, f"shard {spec.get('name')} died rc={res.returncode}: {res.stderr[-800:]}", time.time() - t0
        with open(of, "rb") as fh:
            data = pickle.load(fh)
        if "ResourceWarning" in res.stderr:
            data["counters"]["resource_warnings"] = data["counters"].get("resource_warnings", 0) + res.stderr.count("ResourceWarning")
        return spec, data, None, time.time() - t0

    with ThreadPoolExecutor(max_workers=ncpu) as pool:
        results = list(pool.map(one, enumerate(specs)))
    for spec, data, err, wall in results:
        if err:
            ctx.inconc(err)
            continue
        ctx.merge(data)
        ctx.counters["shards_done"] += 1
    for f in os.listdir(tmp):
        os.unlink(os.path.join(tmp, f))
    os.rmdir(tmp)


def write_evidence(mod, ctx, wall, exhaustive=None):
    cov = {
        "evaluations": int(ctx.counters.get("evaluations", 0)),
        "distinct_nontrivial": len(ctx.nontrivial),
        "rule": mod.RULE,
        "samples": ctx.samples[: core.MAX_SAMPLES] or ["(none recorded)"],
        "counters": {k: int(v) for k, v in sorted(ctx.counters.items())},
        "known_findings_met": {k: v["count"] for k, v in ctx.known.items()},
        "distinct_observations": {k: len(v) for k, v in sorted(ctx.sets.items())},
        "names_observed": {k: sorted(v) for k, v in sorted(ctx.names.items())},
        "inconclusive": ctx.inconclusive,
        "notes": ctx.notes,
    }
    if hasattr(mod, "extra_evidence"):
        cov.update(mod.extra_evidence(ctx))
    ev = {
        "property_id": ctx.prop,
        "tier": ctx.tier,
        "seed": ctx.seed,
        "level": "exploration",
        "coverage": cov,
        "assumptions": getattr(mod, "ASSUMPTIONS", []),
        "wall_s": round(wall, 2),
        "violations": ctx.nfail,
    }
    os.makedirs(os.path.join(core.OUT, "evidence"), exist_ok=True)
    path = os.path.join(core.OUT, "evidence", f"{ctx.prop}.json")
    with open(path + ".tmp", "w") as fh:
        json.dump(ev, fh, indent=1, default=str)
    os.replace(path + ".tmp", path)


def verdict(mod, ctx):
    """Print verdict lines, write replay files, return the exit code."""
    for key, ent in sorted(ctx.known.items()):
        print(f"KNOWN-FINDING: property={ctx.prop} {key} ({ent['count']} instance(s) observed) e.g. {ent['example']}")
    if ctx.nfail:
        os.makedirs(os.path.join(core.OUT, "replays"), exist_ok=True)
        for i, f in enumerate(ctx.failures[:5]):
            path = os.path.join(core.OUT, "replays", f"{ctx.prop}-{ctx.tier}-{ctx.seed}-{i}.json")
            with open(path, "w") as fh:
                json.dump({"property": ctx.prop, **f}, fh, indent=1, default=str)
            print(f"VIOLATION property={ctx.prop} replay={path}")
            print(f"  {f['check']}: {f['detail'][:600]}")
        print(f"{ctx.prop}: {ctx.nfail} violation(s) in {ctx.counters.get('evaluations', 0)} evaluations")
        return EXIT_VIOLATION
    problems = list(ctx.inconclusive)
    for name in getattr(mod, "REQUIRED", []):
        if ctx.counters.get(name, 0) <= 0:
            problems.append(f"monitor/counter never reached: {name}")
    if len(ctx.nontrivial) < getattr(mod, "MIN_NONTRIVIAL", 2):
        problems.append(f"only {len(ctx.nontrivial)} distinct non-trivial cases")
    if problems:
        for p in problems[:10]:
            print(f"INCONCLUSIVE property={ctx.prop}: {p}")
        return EXIT_INCONCLUSIVE
    print(
        f"{ctx.prop} held on everything observed: evaluations={ctx.counters.get('evaluations', 0)} "
        f"distinct_nontrivial={len(ctx.nontrivial)} tier={ctx.tier} seed={ctx.seed}"
    )
    return EXIT_OK


def replay(pid, path):
    assert_repo()
    mod = load_prop(pid)
    with open(path) as fh:
        case = json.load(fh)
    want_env = case.get("env", {})
    if want_env.get("PYTHONHASHSEED") not in (None, "", os.environ.get("PYTHONHASHSEED")) and not os.environ.get("VF_REPLAY_REEXEC"):
        # the case was observed under another string-hash seed: replay in an interpreter started the same way
        env = dict(os.environ, PYTHONHASHSEED=want_env["PYTHONHASHSEED"], VF_REPLAY_REEXEC="1")
        flags = ["-O"] if want_env.get("python_optimize") else []
        return subprocess.run([sys.executable, "-X", "dev", "-W", "ignore", *flags, "-m", "vf.main", pid, "--replay", path], env=env).returncode
    ctx = core.Ctx(pid, "quick", 0, shard="replay")
    if hasattr(mod, "setup"):
        mod.setup(ctx)
    fn = mod.CHECKS[case["check"]]
    try:
        fn(ctx, *case["args"])
    except Exception as exc:
        ctx.crashed(case["check"], case["args"], exc)
    for key, ent in sorted(ctx.known.items()):
        print(f"KNOWN-FINDING: property={pid} {key} e.g. {ent['example']}")
    if ctx.nfail:
        print(f"VIOLATION property={pid} replay={path}")
        for f in ctx.failures[:5]:
            print(f"  {f['check']}: {f['detail'][:1500]}")
        return EXIT_VIOLATION
    print(f"replay {path}: no violation reproduced ({ctx.counters.get('evaluations', 0)} evaluations)")
    return EXIT_OK


def main(argv):
    if argv and argv[0] == "--worker":
        worker(argv[1], argv[2], int(argv[3]), argv[4], argv[5])
        return 0
    if len(argv) < 1:
        print(__doc__)
        return 64
    pid = argv[0].upper()
    if "--replay" in argv:
        return replay(pid, argv[argv.index("--replay") + 1])
    tier = argv[1] if len(argv) > 1 else os.environ.get("VERIF_TIER", "quick")
    if tier not in ("quick", "thorough"):
        print(__doc__)
        return 64
    seed = int(os.environ.get("VERIF_SEED", "0") or 0)
    assert_repo()
    mod = load_prop(pid)
    t0 = time.time()
    ctx = core.Ctx(pid, tier, seed)
    specs = mod.plan(tier, seed)
    timeout = getattr(mod, "WATCHDOG", {}).get(tier, 1200 if tier == "quick" else 4 * 3600)
    run_shards(pid, tier, seed, specs, ctx, timeout)
    ctx.counters["shards_planned"] = len(specs)
    wall = time.time() - t0
    write_evidence(mod, ctx, wall)
    return verdict(mod, ctx)


if __name__ == "__main__":
    try:
        rc = main(sys.argv[1:])
    except Exception as exc:  # a harness failure is never a verdict about the repository
        import traceback

        traceback.print_exc()
        print(f"INCONCLUSIVE: harness failure {exc!r}")
        rc = EXIT_INCONCLUSIVE
    sys.exit(rc)
