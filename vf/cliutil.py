"""Drive the repository's command line entry point (permuta.cli.main) in-process: argv patched, stdout captured,
the never-ending `count` command stopped from the output side after a given number of terms."""
import contextlib
import io
import signal
import sys


class _Stop(BaseException):
    pass


class _Out(io.StringIO):
    def __init__(self, stop_after):
        super().__init__()
        self.stop_after = stop_after

    def write(self, s):
        n = super().write(s)
        text = self.getvalue()
        if self.stop_after is not None and "\n" in text and text.split("\n", 1)[1].count(",") >= self.stop_after:
            raise _Stop  # (the first line is the banner of the `count` command; the terms follow it)
        return n


def run_main(argv, stop_after_commas=None):
    from permuta import cli

    out = _Out(stop_after_commas)
    old_argv = sys.argv
    old_handler = signal.getsignal(signal.SIGINT)
    sys.argv = ["permtools"] + list(argv)
    code = None
    try:
        with contextlib.redirect_stdout(out), contextlib.redirect_stderr(io.StringIO()):
            cli.main()
    except _Stop:
        pass
    except SystemExit as exc:
        code = exc.code
    finally:
        sys.argv = old_argv
        try:
            signal.signal(signal.SIGINT, old_handler)
        except (ValueError, TypeError):
            pass
    out.stop_after = None
    return out.getvalue(), code
