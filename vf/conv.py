"""Boundary between permuta objects and the plain data the oracles use."""
from permuta import BivincularPatt, CovincularPatt, MeshPatt, Perm, VincularPatt


def enc(obj):
    """JSON-able encoding (used in replay files and samples)."""
    if isinstance(obj, Perm):
        return list(obj)
    if isinstance(obj, MeshPatt):
        return {"cls": type(obj).__name__, "p": list(obj.pattern), "s": sorted(map(list, obj.shading))}
    if isinstance(obj, (list, tuple, set, frozenset)):
        return [enc(o) for o in (sorted(obj, key=repr) if isinstance(obj, (set, frozenset)) else obj)]
    if isinstance(obj, dict):
        return {str(k): enc(v) for k, v in obj.items()}
    return obj


def dec(obj):
    """Inverse of enc for patterns: list -> Perm, dict -> mesh pattern of the recorded class."""
    if isinstance(obj, dict) and "p" in obj:
        p = Perm(obj["p"])
        s = [tuple(c) for c in obj["s"]]
        cls = obj.get("cls", "MeshPatt")
        if cls == "MeshPatt":
            return MeshPatt(p, s)
        m = MeshPatt(p, s)
        k = len(p)
        ai = [x for x in range(k + 1) if all((x, y) in m.shading for y in range(k + 1))]
        av = [y for y in range(k + 1) if all((x, y) in m.shading for x in range(k + 1))]
        if cls == "BivincularPatt":
            return BivincularPatt(p, ai, av)
        if cls == "VincularPatt":
            return VincularPatt(p, ai)
        if cls == "CovincularPatt":
            return CovincularPatt(p, av)
        raise ValueError(cls)
    if isinstance(obj, list):
        return Perm(obj)
    raise ValueError(obj)


def plain(obj):
    """Oracle-side value: Perm -> tuple, mesh-type -> (tuple, frozenset)."""
    if isinstance(obj, Perm):
        return tuple(obj)
    if isinstance(obj, MeshPatt):
        return (tuple(obj.pattern), frozenset(obj.shading))
    raise TypeError(type(obj))


def is_valid_perm(obj):
    return isinstance(obj, Perm) and sorted(obj) == list(range(len(obj))) and all(type(v) is int for v in obj)
