"""pytest plugin: run the repository's own tests with the monitors of selected properties installed.
usage: cd /repo && VF_PROPS=C01,C03 python -m pytest -p vf.pytest_plugin tests/patterns -q
A monitor firing here is either too strict or a defect the tests do not assert - the witness is printed."""
import importlib
import json
import os

from vf import core

STATE = []


def pytest_configure(config):
    for pid in os.environ.get("VF_PROPS", "C01").split(","):
        mod = importlib.import_module(f"vf.props.{pid.lower()}")
        ctx = core.Ctx(pid, "quick", 0, shard="repo-tests")
        cwd = os.getcwd()
        mod.setup(ctx)
        os.chdir(cwd)  # some property modules move to a scratch directory; the repository's tests use relative paths
        STATE.append((pid, mod, ctx))


def pytest_unconfigure(config):
    out = {}
    for pid, mod, ctx in reversed(STATE):
        try:
            mod.teardown(ctx)
        except Exception as exc:
            ctx.inconc(f"teardown: {exc!r}")
        out[pid] = {"evaluations": ctx.counters.get("evaluations", 0), "violations": ctx.nfail, "failures": ctx.failures[:10],
                    "known": ctx.known, "calls": {k: v for k, v in ctx.counters.items() if k.startswith("calls.")}}
    path = os.environ.get("VF_PLUGIN_OUT", "/tmp/vf_plugin_out.json")
    with open(path, "w") as fh:
        json.dump(out, fh, indent=1, default=str)
    for pid, d in out.items():
        print(f"\n[vf] {pid}: {d['evaluations']} monitor evaluations during the repository's tests, {d['violations']} violation(s), known: {list(d['known'])}")
        for f in d["failures"][:5]:
            print("   ", f["check"], f["detail"][:300])
