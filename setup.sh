#!/bin/bash
# Offline set-up: contracts library next to the repository's interpreter.
# Safe to run repeatedly; used by MANIFEST.setup_cmd and by ./check when .deps is absent.
set -u
HERE="$(cd "$(dirname "${BASH_SOURCE[0]}")" && pwd)"
DEPS="$HERE/.deps"
if [ ! -d "$DEPS/icontract" ]; then
  mkdir -p "$DEPS"
  PIP_NO_INDEX=1 /venv/bin/pip install --quiet --no-index \
     --find-links /opt/veriftools/wheels --target "$DEPS" icontract deal \
     || echo "setup: icontract/deal not installable; monitors fall back to plain wrappers"
fi
mkdir -p "$HERE/evidence" "$HERE/replays"
echo "setup ok"
