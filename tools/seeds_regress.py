#!/usr/bin/env python3
"""Regression over every kept seeded change, in parallel and without touching /repo: each patch is applied to its own scratch
worktree of /repo (removed afterwards) and the catching check(s) run against it with VERIF_REPO.
usage: tools/seeds_regress.py [--jobs N] [name ...]      prints one line per seed and a summary; exit 1 if any is missed"""
import json
import os
import subprocess
import sys
import tempfile
from concurrent.futures import ThreadPoolExecutor

HERE = os.path.dirname(os.path.dirname(os.path.abspath(__file__)))
sys.path.insert(0, os.path.join(HERE, "tools"))
from seeds_official import CHECKS  # noqa: E402


def one(name):
    d = f"{HERE}/seeded/{name}"
    checks = CHECKS.get(name, [name.split("-")[0]])
    wt = tempfile.mkdtemp(prefix="vfreg-")
    os.rmdir(wt)
    res = {}
    try:
        r = subprocess.run(["git", "-C", "/repo", "worktree", "add", "--detach", wt, "HEAD"], capture_output=True, text=True)
        if r.returncode:
            return name, {"setup": r.stderr[-200:]}
        r = subprocess.run(["git", "-C", wt, "apply", f"{d}/patch.diff"], capture_output=True, text=True)
        if r.returncode:
            return name, {"apply": r.stderr[-200:]}
        for c in checks:
            out = tempfile.mkdtemp(prefix="vfregout-")
            rr = subprocess.run([f"{HERE}/check", c, "quick"], env=dict(os.environ, VERIF_REPO=wt, VERIF_OUT=out, VERIF_JOBS="6"), capture_output=True, text=True, timeout=7200)
            res[c] = {0: "MISSED", 1: "caught", 2: "inconclusive"}.get(rr.returncode, rr.returncode)
            subprocess.run(["rm", "-rf", out])
    finally:
        subprocess.run(["git", "-C", "/repo", "worktree", "remove", "--force", wt], capture_output=True)
        subprocess.run(["rm", "-rf", wt])
    return name, res


def main():
    a = sys.argv[1:]
    jobs = int(a[a.index("--jobs") + 1]) if "--jobs" in a else 4
    names = [x for x in a if not x.startswith("--") and not x.isdigit()] or sorted(os.listdir(f"{HERE}/seeded"))
    bad = 0
    with ThreadPoolExecutor(max_workers=jobs) as pool:
        for name, res in pool.map(one, names):
            ok = any(v == "caught" for v in res.values())
            bad += not ok
            print(name, res, "" if ok else "   <<<<<< NOT CAUGHT", flush=True)
    print(f"{len(names)} seeds, {bad} not caught")
    return 1 if bad else 0


if __name__ == "__main__":
    sys.exit(main())
