#!/usr/bin/env python3
"""Re-run every kept seeded change the prescribed way: git -C /repo apply <patch>; run the catching check(s); git -C /repo checkout -- .
Updates seeded/<name>/meta.json (key "applied_to_repo") and prints a table.  /repo must be clean before and is clean after."""
import json
import os
import subprocess
import sys
import tempfile

HERE = os.path.dirname(os.path.dirname(os.path.abspath(__file__)))
CHECKS = {"C06-2": ["C05", "C02"], "C15-2": ["C20"], "C02-r2-2": ["C07"], "C09-r2-2": ["C09", "C08"]}


def sh(cmd, **kw):
    return subprocess.run(cmd, capture_output=True, text=True, **kw)


def main():
    only = sys.argv[1:]
    assert sh(["git", "-C", "/repo", "status", "--porcelain"]).stdout.strip() == "", "/repo is not clean"
    rows = []
    for name in sorted(os.listdir(f"{HERE}/seeded")):
        if only and name not in only:
            continue
        d = f"{HERE}/seeded/{name}"
        meta = json.load(open(f"{d}/meta.json"))
        checks = CHECKS.get(name, [name.split("-")[0]])
        res = {}
        r = sh(["git", "-C", "/repo", "apply", f"{d}/patch.diff"])
        assert r.returncode == 0, (name, r.stderr)
        try:
            for c in checks:
                out = tempfile.mkdtemp(prefix="vfoff-")
                rr = sh([f"{HERE}/check", c, "quick"], env=dict(os.environ, VERIF_OUT=out), timeout=7200)
                first = next((l.strip() for l in rr.stdout.splitlines() if l.startswith("  ")), "")
                res[c] = {"cmd": f"git -C /repo apply seeded/{name}/patch.diff; ./check {c} quick; git -C /repo checkout -- .",
                          "exit": rr.returncode, "verdict": {0: "MISSED", 1: "caught", 2: "inconclusive"}.get(rr.returncode), "witness": first[:300]}
                subprocess.run(["rm", "-rf", out])
        finally:
            sh(["git", "-C", "/repo", "checkout", "--", "."])
            sh(["git", "-C", "/repo", "clean", "-fdq", "--", "permuta"])
        meta["applied_to_repo"] = res
        json.dump(meta, open(f"{d}/meta.json", "w"), indent=1)
        rows.append((name, {c: v["verdict"] for c, v in res.items()}))
        print(name, {c: v["verdict"] for c, v in res.items()}, flush=True)
    assert sh(["git", "-C", "/repo", "status", "--porcelain"]).stdout.strip() == "", "/repo left dirty!"


if __name__ == "__main__":
    main()
