#!/usr/bin/env python3
"""Regenerates MANIFEST.json from the table below (claimed checks = modules in vf/props)."""
import json
import os

HERE = os.path.dirname(os.path.dirname(os.path.abspath(__file__)))

CHECKS = {
    "C01": dict(
        technique="runtime monitoring: call/return recorders + generator proxies on the real search functions, decided "
                  "by a definitional pattern census; memo-table state invariant; exhaustive + random + history workloads",
        text="Every call of the occurrence/containment/count entry points made by the workload (and by the library "
             "internally) is decided against the definition; exhaustive for all patterns k<=4 x texts n<=7 (quick) / "
             "k<=5 x n<=8, k<=4 x n=9, k=6 x n=7 (thorough) plus random long pairs, colourings and re-use histories. "
             "Exploration: held on the executions observed, nothing beyond them.",
        note="trusted: vf/oracle/classical.py (subset enumeration); CPython; oracle skipped when C(n,k)>2e5",
        ref="DESIGN.md §4 C01",
    ),

    "C02": dict(
        technique="runtime monitoring: monitors on every Av query method + hook on Av._ensure_level (inside the critical section) "
                  "decided by brute-force avoiders; random operation histories with resumed iterators, clear_cache, other classes and "
                  "queries aborted by exceptions injected at sys.monitoring failpoints inside permset.py",
        text="Every query issued in ~1400 (quick) random/enumerated histories (incl. ~6% aborted queries after which every later answer must still be right), and every level the cache ever built, is compared with "
             "brute-force avoiders of the raw basis (classical by definition, mesh by cell geometry) up to length 7/6 (8/7 thorough). "
             "is_subclass: exact criterion for classical bases, bounded refutation with mesh bases. Exploration only.",
        note="trusted: vf/oracle/{classical,mesh}.py, vf/avmodel.py; lengths above the bound are not judged; known findings K4/K5 classified by mechanism",
        ref="DESIGN.md §4 C02",
    ),
    "C03": dict(
        technique="runtime monitoring: generator proxies on MeshPatt/BivincularPatt.occurrences_in and recorders on the containment entry "
                  "points, decided by cell geometry and by the adjacency definition of bivincular requirements",
        text="Every shading of every pattern of length <=2 and every requirement pair of length <=2 (<=3 thorough) against all texts of "
             "length <=5 (6), plus sparse random longer patterns and mixed-argument containment calls. Exploration only.",
        note="trusted: vf/oracle/mesh.py (cell = #positions left, #values below), classical census",
        ref="DESIGN.md §4 C03",
    ),
    "C04": dict(
        technique="runtime monitoring: recorders on every symmetry operation of Perm/MeshPatt and on permutils.symmetry, decided by the "
                  "isometries of the square acting on points and cell centres; equivariance triples; CLI output captured",
        text="All of S_0..S_6 (S_7 thorough) under all named symmetries and rotation counts -9..9, every mesh pattern of length <=2, "
             "random asymmetric shadings, containment equivariance, orbit sets, lex_min constancy and the lexmin CLI. Exploration only.",
        note="trusted: vf/oracle/geometry.py; rotate(1) taken to be the clockwise quarter turn",
        ref="DESIGN.md §4 C04",
    ),
    "C05": dict(
        technique="runtime monitoring: recorders on Basis.__new__/MeshBasis.__new__ (every construction, also inside Av) decided by class "
                  "comparison with brute-force avoiders and oracle mesh-in-mesh containment; order/repetition metamorphic workload",
        text="Every multiset of <=3 patterns of S_1..S_3 in every order and ~1500 random mixed collections in up to 24 orders: same class "
             "as the raw input up to length 6, minimal, order independent, fixed point, equal hashes, Av identity, from_string 0/1-based. "
             "Exploration only.",
        note="trusted: oracles; class comparison bounded by N; K5 classified by mechanism",
        ref="DESIGN.md §4 C05",
    ),
    "C07": dict(
        technique="runtime monitoring under stress: multi-threaded histories with sys.monitoring LINE-event yield injection in permset.py, "
                  "setswitchinterval(1e-6), lock proxy, invariant hook inside the critical section, per-operation sequential oracle, "
                  "deadlock detection by stack inspection",
        text="160 (quick) / 2000 (thorough) multi-threaded cases, each decided operation by operation against the sequential model; the "
             "evidence reports yields injected, lock acquisitions, hook activations and distinct interleavings seen. Sampled schedules "
             "only: a race needing a preemption inside one bytecode is out of reach.",
        note="trusted: CPython thread switching at statement boundaries; sequential oracle; a watchdog expiry that is not a lock deadlock is inconclusive",
        ref="DESIGN.md §4 C07",
    ),
    "C08": dict(
        technique="runtime monitoring: shadow table (object -> first hash) behind __hash__, recorders on __eq__ and the ordering operators; "
                  "law checking over all pairs / triples of a universe; hash-stability histories with seeded allocation churn and gc",
        text="~500 values (permutations, all mesh patterns of length <=1, sampled longer ones, all bivincular-type patterns of length <=2 "
             "with MeshPatt twins, bases), all ordered pairs, 10^5 triples, 3000 churn histories. Exploration only.",
        note="order on mesh-type patterns only required to be a total order consistent with ==; cross-kind equality (Perm vs Basis) only "
             "required not to fail and to agree with hashing",
        ref="DESIGN.md §4 C08",
    ),

    "C06": dict(
        technique="runtime monitoring: recorders on sub_mesh_pattern / mesh-in-mesh occurrences / contains / is_shaded / is_pointfree decided by "
                  "region geometry; composed-occurrence soundness on texts built to contain Q; constructed witnesses for every unshaded induced cell",
        text="Every mesh pattern of length <=2 with every index subset, ~2000 (quick) sparse random patterns of length 3-5 with all subsets, "
             "constructed (weakened sub-pattern) and random pairs; 3*10^5 composed occurrences and 1.8*10^5 witnesses per quick run. Exploration only.",
        note="trusted: vf/oracle/mesh.py region semantics; texts of length <= 8; K5 (shaded empty pattern) classified by mechanism",
        ref="DESIGN.md §4 C06",
    ),
    "C09": dict(
        technique="runtime monitoring: generator proxies / recorders on generators, rank, unrank, standardisation, notations and mesh rank/unrank, "
                  "decided by itertools order and definitional ranking; memoisation history forcing LRU eviction; several live generators "
                  "advanced in interleaved order",
        text="Exhaustive S_0..S_7 (S_8 thorough) for rank/unrank/notations, every first(c) for c<160 and around level boundaries, every mesh "
             "shading of length <=2, random ranks up to length 20, heterogeneous standardisation inputs, 12000-key eviction history. Exploration only.",
        note="from_string/str round trip only for length <= 10, from_integer only where an integer can spell the permutation",
        ref="DESIGN.md §4 C09",
    ),
    "C10": dict(
        technique="runtime contracts (icontract postconditions: result is a bijection of the documented length) on the real methods + recorders "
                  "decided by point-set constructions; algebraic laws checked on the observed results",
        text="All of S_0..S_5 (S_6 thorough) with every index/value/shift argument, all ordered pairs of S_0..S_4 for sums/composition, random "
             "inflations with empty/None components, random longer permutations. Exploration only.",
        note="trusted: vf/oracle/structure.py, icontract 2.7.3 (installed offline into /verif/.deps by setup.sh)",
        ref="DESIGN.md §4 C10",
    ),
    "C11": dict(
        technique="runtime monitoring: recorders on ~75 statistic/listing methods decided by definitional oracles; the named statistics matched by "
                  "NAME; distribution and bijection tools decided by re-evaluating their defining identity on the supplied data; aliasing "
                  "history (returned containers are emptied by the caller, then every statistic is asked again)",
        text="Exhaustive S_0..S_6 (S_7 thorough), random longer permutations for the cheap statistics, 30 classes for distributions, 200 "
             "bijections (structured, random, partial, empty), equidistribution on class pairs. Known findings K1 (LIS is longest run) and K2 "
             "(layers) are recognised by buggy-model replay only. Exploration only.",
        note="count_bounces / count_column_sum_primes: transcription oracle only; statistics 28-31 in their implemented reading (DESIGN §3)",
        ref="DESIGN.md §4 C11",
    ),
    "C12": dict(
        technique="runtime monitoring: recorders on sorting operators, sortable predicates, pass counts, Simion-Schmidt and the family predicates, "
                  "decided by device simulators, pattern characterisations, index-inequality definitions and Greene's theorem",
        text="Exhaustive S_0..S_7 (S_8 thorough) + random longer permutations; Simion-Schmidt checked as a bijection level by level (both "
             "directions) with domain rejection. Exploration only.",
        note="trusted: vf/oracle/sorting.py; conventions for n <= 2 from the docstrings; known finding K6 (recursion depth of the recursive sorting operators on long monotone input) classified by mechanism",
        ref="DESIGN.md §4 C12",
    ),

    "C13": dict(
        technique="runtime monitoring: recorders on the finiteness / polynomial / insertion-encoding verdict functions (every binding) and Av "
                  "wrappers decided by the structure theorems written with forbidden patterns; enumeration-consistency oracle; memo-table state "
                  "check at the end of each history; Av-object histories around clear_cache / garbage collection; CLI output captured",
        text="Every basis of <=2 elements from S_1..S_3 (S_4 thorough), 2000 random bases up to length 6 and single-witness bases; 9 container "
             "forms incl. one-shot iterators, 8 symmetries, call histories through the process-wide memos, Erdos-Szekeres / Fibonacci "
             "consistency with brute-force counts up to N=8. Exploration only.",
        note="trusted: vf/oracle/classes.py (bases of the juxtaposition classes validated against the two-runs description for n<=7)",
        ref="DESIGN.md §4 C13",
    ),
    "C14": dict(
        technique="runtime monitoring: recorders on the pin-word API + invariant hook on PinWordUtil.call (geometric predicates on the "
                  "implementation's own coordinates), decided by an exact-rational pin placement; containment decided by definitional pattern "
                  "containment; known finding K3 recognised by buggy-model replay",
        text="Every pin word of length <=4 against every permutation of length <=4, sampled words of length 5 (6 thorough), tables and "
             "enumeration for every length <=5 (6), every M-word of length <=8 for the translations. Exploration only.",
        note="trusted: vf/oracle/pins.py",
        ref="DESIGN.md §4 C14",
    ),
    "C15": dict(
        technique="runtime monitoring: every automaton returned by the builders is executed on all words of the pin-sequence language up to a "
                  "bound and decided by word-level semantics (decode -> contain); own product search for equivalence, path counting and cycle "
                  "detection on the observed transition tables",
        text="All bases {b}, b in S_1..S_3, sampled S_4 and pairs (all of S_4 + pairs thorough), every M-word of length <=8 (11), db vs scratch "
             "vs union equivalence, bases led by a permutation without pin words (length 6), has_finite_pinperms vs cycle detection. Words beyond the bound only through equivalence. Exploration only.",
        note="trusted: vf/oracle/{automata,pins}.py; automata-lib objects are only read (states, transitions, initial, final)",
        ref="DESIGN.md §4 C15",
    ),
    "C16": dict(
        technique="runtime monitoring: recorders on the table tests and on the four offers of the verdict, decided by (A) enumeration of the "
                  "class's simple permutations (Schmerl-Trotter consecutive-lengths criterion) and (B) explicit family formulas in all "
                  "orientations; probes designed to isolate every orientation of every table",
        text="~70 bases incl. all of S_3, sampled S_4/pairs, bases between families and one separating basis per (family, orientation); every "
             "x in S_1..S_5 probed through each table function per orientation; simples enumerated to length 9 (10). 'Finitely many' that "
             "does not show within the bound is counted unconfirmed, never held. Exploration only.",
        note="trusted: vf/oracle/families.py (validated against the shipped tables on S_1..S_5 at design time), enumeration above length 7 by the library",
        ref="DESIGN.md §4 C16",
    ),

    "C17": dict(
        technique="runtime monitoring: recorders on bisc and its sub-functions; every output decided against the input by oracle mesh "
                  "containment (sound / complete / irredundant), private containment test vs mesh containment, clean-up bases vs the bad "
                  "permutations they were run on, representation metamorphism",
        text="1200 (quick) / 8000 (thorough) runs on arbitrary finite sets (random subsets at several densities, avoidance sets of random "
             "mesh patterns, complements, unions), n <= 5 (6), m <= 4, all three input representations; auto_bisc on 4 properties over "
             "S_0..S_8 in the thorough tier. Exploration only.",
        note="trusted: vf/oracle/mesh.py; dictionary inputs have every key 0..n",
        ref="DESIGN.md §4 C17",
    ),
    "C18": dict(
        technique="runtime monitoring: recorders on the shading-lemma tests, the table, point insertion, shade and ascii_plot; every positive "
                  "verdict / insertion result decided semantically over ALL permutations up to length N by cell-geometry containment; "
                  "independent plot parser; derived-object history (patterns obtained through shade/add_point/rotate are queried after their parents)",
        text="Every mesh pattern of length <=2 with every cell and adjacent pair, 1600 sparse length-3 patterns (20000 + length 4 thorough), "
             "N=6 (7). Only soundness of positive lemma verdicts is judged. Exploration only.",
        note="trusted: vf/oracle/mesh.py",
        ref="DESIGN.md §4 C18",
    ),
    "C19": dict(
        technique="runtime monitoring: recorders on applies() of every strategy and on find_strategies, decided by a second implementation "
                  "of the stated hypotheses (geometry oracle for the 8 images, definitional containment, shapes from structure.py); "
                  "metamorphic workload (order, repetition, container, symmetries, quick vs slow)",
        text="960 (quick) / 6000 (thorough) bases constructed around the core patterns with shaped and near-miss extensions, pushed through "
             "random symmetries. Exploration only.",
        note="bases containing the length-1 permutation are outside the domain of the shape helpers; the simples strategy is compared with the class test (decided in C16)",
        ref="DESIGN.md §4 C19",
    ),
    "C20": dict(
        technique="runtime monitoring: operation histories against a last-write model in temp directories, sys.addaudithook recorder of "
                  "file opens, DFA store histories (chdir, memo clearing, failpoints inside the automaton computation, threads storing "
                  "different permutations) decided by own language-equivalence search and word semantics, shipped data verified "
                  "against independent property definitions",
        text="200 (2000) file histories with overwrites, deletions and seven kinds of corruption; 96 (600) DFA-store histories; all 28 shipped files: keys, partition, no duplicates, good = property up to length 6 (quick) / full length "
             "(thorough). Exploration only.",
        note="the two data files emptied by the environment must read as invalid and are otherwise skipped",
        ref="DESIGN.md §4 C20",
    ),
}

NOT_YET = {}


# workloads added after the third round of independently seeded changes (DESIGN.md §9.5)
ROUND3 = {
    "C01": " Colourings use None/False/()/mixed-type colours.",
    "C02": " Every permutation of length 4-5 is asked for on handles whose cache holds only 0-3 levels (mesh classes are not prefix closed).",
    "C03": " Requirement arguments are also given reversed, repeated and as one-shot iterables.",
    "C06": " Index collections are given in any order and container.",
    "C07": " One thread may empty the class registry (Av.clear_cache) while the others create handles from equal bases.",
    "C09": " Equal-hash keys (-1/-2, 2^61-1/0) are standardised back to back through the memo.",
    "C10": " remove() is also driven with negative (tuple-style) indices.",
    "C11": " Distribution tools are also run on classes given by mesh patterns that have an empty level below non-empty ones.",
    "C12": " dihedral() is asked about every affine map i->a+d*i (mod n), d a unit, n<=24 (40).",
    "C14": " Long words (6-14 letters, staircases favoured): factors read off the word, near misses, sub-permutations of perm(w).",
    "C15": " Bases with the empty permutation, repeated elements and lengths not grouped are included.",
    "C16": " Bases are also listed in every other order and mixed with elements of length 1-2.",
    "C17": " auto_bisc runs (3 quick / 10 thorough) on properties chosen so that each retry branch of the driver is taken; the branch counters are required.",
    "C20": " Data-set names containing 'good', 'bad', 'len3', '.json' are used.",
}


# workloads added after the fourth round (DESIGN.md §9.5)
ROUND4 = {
    "C01": " Patterns of 500-640 points; the same collection object re-used after the caller replaced members.",
    "C04": " Patterns of 500-620 points through all eight images.",
    "C05": " Increasing+decreasing pattern pairs with avoiders of every admissible length; antichains of 120/720 elements.",
    "C06": " Several same-perm arguments in every order; range objects as index collections.",
    "C07": " 30% of the cases use raw _thread threads; deep cases to length 10 (11) with closed-form expectations.",
    "C08": " Nested shading families over grids of 16-64 cells.",
    "C09": " Lazily consumed mesh listings for lengths 3-10; mixed int/float/Fraction/Decimal standardisation inputs.",
    "C10": " Shift amounts up to 10^30; products and sums of up to 2500 arguments, also from deep in the call stack.",
    "C11": " The primality helper asked in arbitrary order; statistics on 500-1500 points; class pairs whose per-length differences cancel in total.",
    "C12": " Simion-Schmidt on members of 300-1100 (2000) points and in an interpreter started with -O; devices on long inputs (known finding K6: recursion depth).",
    "C13": " Bases meeting exactly nine of the ten classes; members of 501-640 points (structural membership oracle).",
    "C14": " Words of more than 1000 letters; a shard with perturbed ambient process state (decimal precision, cwd, recursion limit, random seed).",
    "C15": " Planted self-overlapping pin sequences for basis elements of length 7.",
    "C16": " The whole verdict is monitored (family formulas on the full basis; non-pin and oscillation arguments); bases where non-pin permutations matter.",
    "C17": " bisc with n omitted on lists with missing lengths.",
    "C20": " Never-written files named like shipped data sets; convention-change write sequences over consecutive lengths.",
}


# workloads added after the fifth round (DESIGN.md §9.5)
ROUND5 = {
    "C01": " The same Perm object under a vincular/mesh pattern first; pickled/copied/subclass objects; unhashable colour labels; listings thrown into / re-entered.",
    "C02": " Hundreds of other classes created while a class and its iterator are held; bases given lazily.",
    "C03": " Copies and pickles of used pattern objects.",
    "C04": " Basis/tuple arguments of the set helpers; several patterns per call through all eight images.",
    "C05": " Bases given lazily; separately built equal patterns; a user subclass of Av.",
    "C06": " Vincular-family objects as the smaller pattern.",
    "C09": " Strings as character sequences incl. digits of other scripts.",
    "C10": " Receivers of user subclasses.",
    "C11": " Objects that served other features first; the caller's bijection compared with a snapshot.",
    "C12": " Notation twins of dihedral members (length 10-14); objects that served as patterns first.",
    "C13": " Lazily evaluated re-entrant bases (self-deadlock recognised by stack inspection).",
    "C14": " Word-level pairs with any pin word; word objects built on the fly.",
    "C15": " Histories through one store: colliding notations, a basis followed by its prefixes.",
    "C16": " Element-wise symmetric images asked right after a basis.",
    "C17": " 4800 small sparse sets; defaultdict input.",
    "C18": " Vincular-family receivers.",
    "C19": " Class enumerated before the search; replicas under eight other PYTHONHASHSEED values.",
    "C20": " Raw data sets with permutations of length 10-13; non-pin permutations in the automaton store.",
}


# workloads added after the sixth round (DESIGN.md §9.5)
ROUND6 = {
    "C05": " Long densely shaded patterns with short ones induced from them; blocked regions.",
    "C07": " Mesh classes with an empty level below non-empty ones.",
    "C08": " All ordered triples and sorted() over families of nested shadings.",
    "C11": " Fifteen length-11 permutations whose holeyness needs three runs of positions.",
    "C20": " Every block of the shipped files is also judged by the library's own predicate of that name.",
}


def main():
    props = [json.loads(l) for l in open(os.path.join(HERE, "properties.jsonl"))]
    checks, na = [], []
    for p in props:
        pid = p["id"]
        c = CHECKS.get(pid)
        if c and os.path.exists(os.path.join(HERE, "vf", "props", pid.lower() + ".py")):
            checks.append({
                "property_id": pid,
                "quick_cmd": f"./check {pid} quick",
                "thorough_cmd": f"./check {pid} thorough",
                "evidence_file": f"/verif/evidence/{pid}.json",
                "replay_cmd_template": f"./check {pid} --replay {{path}}",
                "engine": "vf",
                "level_claimed": {"category": "exploration", "text": c["text"] + ROUND3.get(pid, "") + ROUND4.get(pid, "") + ROUND5.get(pid, "") + ROUND6.get(pid, ""), "design_ref": c["ref"]},
                "level_note": c["note"],
                "technique": c["technique"],
            })
        else:
            na.append({"property_id": pid, "reason": NOT_YET.get(pid, "check not built yet in this round (runtime monitor planned, see DESIGN.md §4); not claimed until it runs silent on the unchanged tree")})
    man = {
        "version": 1,
        "setup_cmd": "./setup.sh",
        "hooks": {
            "guard": "PERMUTA_VERIF",
            "enable": "no source hooks: monitors are installed from the harness by attribute replacement and sys.monitoring "
                      "(./check exports PERMUTA_VERIF=1; nothing in /repo reads it)",
            "baseline_off_cmd": "cd /repo && /venv/bin/python -m pytest -ra -q -p no:cacheprovider --timeout=900 --continue-on-collection-errors",
            "source_commits": [],
            "add_only": True,
        },
        "engines": [{"name": "vf", "path": "/verif/vf", "serves_properties": [c["property_id"] for c in checks],
                     "kind_free_text": "Python runtime-monitoring harness: monitors on the real functions (attribute replacement, "
                                       "generator proxies, sys.monitoring), independent reference models under vf/oracle, "
                                       "sharded seeded workloads, three-valued verdicts"}],
        "checks": checks,
        "not_applicable": na,
        "notes": "exit 2 + INCONCLUSIVE line = deciding monitor not reached / too few events / watchdog. "
                 "Known findings: /verif/known_findings.json. Seeds: VERIF_SEED. Fix commits in /repo: see known_findings.json 'fixed'.",
    }
    with open(os.path.join(HERE, "MANIFEST.json"), "w") as fh:
        json.dump(man, fh, indent=1)
    print(f"{len(checks)} checks, {len(na)} not_applicable")


if __name__ == "__main__":
    main()
