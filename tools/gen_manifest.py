#!/usr/bin/env python3
"""Regenerates MANIFEST.json from the table below (claimed checks = modules in vf/props)."""
import json
import os

HERE = os.path.dirname(os.path.dirname(os.path.abspath(__file__)))

CHECKS = {
    "C01": dict(
        technique="runtime monitoring: call/return recorders + generator proxies on the real search functions, decided "
                  "by a definitional pattern census; memo-table state invariant; exhaustive + random + history workloads",
        text="Every call of the occurrence/containment/count entry points made by the workload (and by the library "
             "internally) is decided against the definition; exhaustive for all patterns k<=4 x texts n<=7 (quick) / "
             "k<=5 x n<=8, k<=4 x n=9, k=6 x n=7 (thorough) plus random long pairs, colourings and re-use histories. "
             "Exploration: held on the executions observed, nothing beyond them.",
        note="trusted: vf/oracle/classical.py (subset enumeration); CPython; oracle skipped when C(n,k)>2e5",
        ref="DESIGN.md §4 C01",
    ),
}

NOT_YET = {}


def main():
    props = [json.loads(l) for l in open(os.path.join(HERE, "properties.jsonl"))]
    checks, na = [], []
    for p in props:
        pid = p["id"]
        c = CHECKS.get(pid)
        if c and os.path.exists(os.path.join(HERE, "vf", "props", pid.lower() + ".py")):
            checks.append({
                "property_id": pid,
                "quick_cmd": f"./check {pid} quick",
                "thorough_cmd": f"./check {pid} thorough",
                "evidence_file": f"/verif/evidence/{pid}.json",
                "replay_cmd_template": f"./check {pid} --replay {{path}}",
                "engine": "vf",
                "level_claimed": {"category": "exploration", "text": c["text"], "design_ref": c["ref"]},
                "level_note": c["note"],
                "technique": c["technique"],
            })
        else:
            na.append({"property_id": pid, "reason": NOT_YET.get(pid, "check not built yet in this round (runtime monitor planned, see DESIGN.md §4); not claimed until it runs silent on the unchanged tree")})
    man = {
        "version": 1,
        "setup_cmd": "./setup.sh",
        "hooks": {
            "guard": "PERMUTA_VERIF",
            "enable": "no source hooks: monitors are installed from the harness by attribute replacement and sys.monitoring "
                      "(./check exports PERMUTA_VERIF=1; nothing in /repo reads it)",
            "baseline_off_cmd": "cd /repo && /venv/bin/python -m pytest -ra -q -p no:cacheprovider --timeout=900 --continue-on-collection-errors",
            "source_commits": [],
            "add_only": True,
        },
        "engines": [{"name": "vf", "path": "/verif/vf", "serves_properties": [c["property_id"] for c in checks],
                     "kind_free_text": "Python runtime-monitoring harness: monitors on the real functions (attribute replacement, "
                                       "generator proxies, sys.monitoring), independent reference models under vf/oracle, "
                                       "sharded seeded workloads, three-valued verdicts"}],
        "checks": checks,
        "not_applicable": na,
        "notes": "exit 2 + INCONCLUSIVE line = deciding monitor not reached / too few events / watchdog. "
                 "Known findings: /verif/known_findings.json. Seeds: VERIF_SEED. Fix commits in /repo: see known_findings.json 'fixed'.",
    }
    with open(os.path.join(HERE, "MANIFEST.json"), "w") as fh:
        json.dump(man, fh, indent=1)
    print(f"{len(checks)} checks, {len(na)} not_applicable")


if __name__ == "__main__":
    main()
