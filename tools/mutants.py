#!/usr/bin/env python3
"""Sensitivity self-test: apply one small source mutation at a time to a scratch copy of
/repo (under a temp dir, removed afterwards), point ./check at the copy and require exit 1.

usage: tools/mutants.py [ID ...] [--tier quick] [--jobs 4] [--tests]   (catalogue: tools/mutants.json)
--tests additionally runs the repository's own test-suite on each mutant (is it "realistic"?).
"""
import json
import os
import shutil
import subprocess
import sys
import tempfile
from concurrent.futures import ThreadPoolExecutor

HERE = os.path.dirname(os.path.dirname(os.path.abspath(__file__)))


def run_one(m, tier, tests):
    tmp = tempfile.mkdtemp(prefix="vfmut-")
    try:
        subprocess.run(["rsync", "-a", "--exclude", ".git", "--exclude", "dfa_db", "/repo/", tmp + "/"], check=True)
        path = os.path.join(tmp, m["file"])
        src = open(path).read()
        for old, new in m.get("edits") or [(m["old"], m["new"])]:
            if src.count(old) != 1:
                return m, "BAD-MUTANT", f"old text occurs {src.count(old)} times: {old[:40]!r}"
            src = src.replace(old, new)
        open(path, "w").write(src)
        env = dict(os.environ, VERIF_REPO=tmp, VERIF_OUT=tmp + "/.vfout", VERIF_JOBS=str(m.get("jobs", 8)))
        res = subprocess.run([os.path.join(HERE, "check"), m["prop"], tier], env=env, capture_output=True, text=True,
                             timeout=3600)
        first = next((l for l in res.stdout.splitlines() if l.startswith("  ")), "")
        status = {0: "MISSED", 1: "caught", 2: "INCONCLUSIVE"}.get(res.returncode, f"rc={res.returncode}")
        if m.get("expect") == "held":  # a behaviour-preserving variant: the check must stay silent
            status = {0: "silent-ok", 1: "FALSE-ALARM", 2: "INCONCLUSIVE"}.get(res.returncode, f"rc={res.returncode}")
        extra = first.strip()[:160]
        if tests:
            t = subprocess.run(["/venv/bin/python", "-m", "pytest", "-q", "-x", "-p", "no:cacheprovider", "-n", "4"],
                               cwd=tmp, capture_output=True, text=True, timeout=3600)
            extra += " | tests: " + t.stdout.strip().splitlines()[-1][:80]
        return m, status, extra
    finally:
        shutil.rmtree(tmp, ignore_errors=True)


def main():
    args = sys.argv[1:]
    tier = "quick"
    jobs = 4
    tests = "--tests" in args
    if "--tier" in args:
        tier = args[args.index("--tier") + 1]
    if "--jobs" in args:
        jobs = int(args[args.index("--jobs") + 1])
    ids = [a for a in args if a.startswith("C") and len(a) == 3]
    names = [a for a in args if a.startswith("m:")]
    cat = json.load(open(os.path.join(HERE, "tools", "mutants.json")))
    todo = [m for m in cat if (not ids or m["prop"] in ids) and (not names or "m:" + m["name"] in names)]
    with ThreadPoolExecutor(max_workers=jobs) as pool:
        results = list(pool.map(lambda m: run_one(m, tier, tests), todo))
    bad = 0
    for m, status, extra in results:
        print(f"{m['prop']} {m['name']:<40} {status:<12} {extra}")
        bad += status not in ("caught", "silent-ok")
    print(f"{len(results) - bad}/{len(results)} as expected")
    return 1 if bad else 0


if __name__ == "__main__":
    sys.exit(main())
