#!/bin/bash
# usage: tools/sweep.sh <tier> <seed> [ids...]   -- runs the checks one after another, prints a one-line verdict each
# (evidence is written to a scratch dir so the committed evidence is not disturbed)
tier=$1; seed=$2; shift 2
ids=${@:-C01 C02 C03 C04 C05 C06 C07 C08 C09 C10 C11 C12 C13 C14 C15 C16 C17 C18 C19 C20}
out=$(mktemp -d /tmp/vfsweep-XXXX)
for id in $ids; do
  s=$(date +%s)
  VERIF_OUT=$out VERIF_SEED=$seed ./check $id $tier > $out/$id.log 2>&1; rc=$?
  e=$(( $(date +%s) - s ))
  echo "$id tier=$tier seed=$seed rc=$rc ${e}s $(grep -c '^KNOWN-FINDING' $out/$id.log) known; $(grep -E '^(VIOLATION|INCONCLUSIVE)' $out/$id.log | head -2 | tr '\n' ' ')"
done
echo "logs in $out"
