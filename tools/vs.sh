#!/bin/bash
# tools/vs.sh C04 [extra verify_seed args]  -> verifies change1 and change2 of that property and keeps them under seeded/
id=$1; shift
for n in 1 2; do
  [ -f ${SEED_ROOT:-/tmp/seed}/$id/_out/change$n.diff ] || continue
  python3 tools/verify_seed.py $id $n --keep-as $id-${SEED_TAG:-}$n "$@" 2>&1 | python3 -c "
import json,sys
t=sys.stdin.read()
try:
    m=json.loads(t[t.index('{'):])
    print(m['property'],m['change'],'demo_ok',m['demo_ok'],'tests',m.get('tests_pass'),{k:(v['verdict'],v['s'],v['first_violation'][:160]) for k,v in m['checks'].items()})
except Exception as e:
    print('verify failed', e, t[-800:])"
done
