#!/usr/bin/env python3
"""Which functions of the repository did the checks drive?  Reads evidence/*.json (names_observed) and lists every
function defined under <repo>/permuta that no check entered while its monitors were installed.

usage: tools/api_reach.py [--by-check]
"""
import ast
import json
import os
import sys

HERE = os.path.dirname(os.path.dirname(os.path.abspath(__file__)))
REPO = os.environ.get("VERIF_REPO", "/repo")
KEY = "repository functions entered while the monitors were installed"


def defined():
    out = {}
    for base, _dirs, files in os.walk(os.path.join(REPO, "permuta")):
        for f in files:
            if not f.endswith(".py"):
                continue
            path = os.path.join(base, f)
            rel = os.path.relpath(path, REPO)
            tree = ast.parse(open(path).read())

            def walk(node, prefix):
                for ch in ast.iter_child_nodes(node):
                    if isinstance(ch, (ast.FunctionDef, ast.AsyncFunctionDef)):
                        q = prefix + ch.name
                        out[f"{rel}:{q}"] = ch.lineno
                        walk(ch, q + ".<locals>.")
                    elif isinstance(ch, ast.ClassDef):
                        walk(ch, prefix + ch.name + ".")
                    else:
                        walk(ch, prefix)
            walk(tree, "")
    return out


def main():
    entered, by = set(), {}
    for f in sorted(os.listdir(os.path.join(HERE, "evidence"))):
        if f.endswith(".json"):
            d = json.load(open(os.path.join(HERE, "evidence", f)))
            names = set(d.get("coverage", {}).get("names_observed", {}).get(KEY, []))
            by[f[:-5]] = names
            entered |= names
    funcs = defined()
    real = {k for k in funcs if "<locals>" not in k}
    missing = sorted(k for k in real if k not in entered and not any(e.startswith(k + ".") for e in entered))
    print(f"{len(real)} functions defined under permuta/, {len(real) - len(missing)} entered by at least one check, {len(missing)} never entered:")
    for k in missing:
        print("  ", k, f"(line {funcs[k]})")
    if "--by-check" in sys.argv:
        for c, names in by.items():
            print(c, len(names))


if __name__ == "__main__":
    main()
