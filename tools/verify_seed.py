#!/usr/bin/env python3
"""Confirm a seeded change delivered by a sub-agent and run our checks against it.

usage: tools/verify_seed.py <PROP-ID> <n> [--checks C01,C05] [--tier quick] [--skip-tests] [--keep-as <name>]

In a fresh scratch worktree of /repo (outside /repo and /verif, removed afterwards):
  1. demo on the unchanged tree            -> must exit 0
  2. git apply change<n>.diff; demo        -> must exit non-zero
  3. the repository's own test-suite       -> must pass (542)
  4. ./check <id> <tier> with VERIF_REPO pointing at the patched worktree -> caught (1) / missed (0) / inconclusive (2)
and, with --keep-as, store patch.diff, the demonstration and meta.json under /verif/seeded/<name>/.
"""
import json
import os
import shutil
import subprocess
import sys
import tempfile
import time

HERE = os.path.dirname(os.path.dirname(os.path.abspath(__file__)))


def sh(cmd, cwd=None, env=None, timeout=3600):
    t = time.time()
    r = subprocess.run(cmd, cwd=cwd, env=env, shell=isinstance(cmd, str), capture_output=True, text=True, timeout=timeout)
    return r.returncode, r.stdout, r.stderr, round(time.time() - t, 1)


def main():
    a = sys.argv[1:]
    pid, n = a[0], a[1]
    tier = a[a.index("--tier") + 1] if "--tier" in a else "quick"
    checks = a[a.index("--checks") + 1].split(",") if "--checks" in a else [pid]
    keep = a[a.index("--keep-as") + 1] if "--keep-as" in a else None
    root = os.environ.get("SEED_ROOT", "/tmp/seed")
    src = f"{root}/{pid}/_out"
    diff, demo, notes = f"{src}/change{n}.diff", f"{src}/demo{n}.py", f"{src}/notes{n}.md"
    wt = tempfile.mkdtemp(prefix="vfseed-")
    os.rmdir(wt)
    meta = {"property": pid, "change": int(n), "ran": []}
    try:
        rc, o, e, _ = sh(["git", "-C", "/repo", "worktree", "add", "--detach", wt, "HEAD"])
        assert rc == 0, e
        os.makedirs(f"{wt}/_out")
        # the demo asserts the path of its own worktree: rewrite it to this scratch worktree
        text = open(demo).read().replace(f"{root}/{pid}", wt)
        open(f"{wt}/_out/demo.py", "w").write(text)
        env = dict(os.environ, PYTHONPATH=wt, PYTHONHASHSEED="0")
        rc0, o0, e0, t0 = sh(["/venv/bin/python", "_out/demo.py"], cwd=wt, env=env, timeout=600)
        meta["ran"].append({"cmd": "demo on the unchanged tree", "exit": rc0, "s": t0})
        rc, o, e, _ = sh(["git", "-C", wt, "apply", diff])
        assert rc == 0, "patch does not apply: " + e
        rc1, o1, e1, t1 = sh(["/venv/bin/python", "_out/demo.py"], cwd=wt, env=env, timeout=600)
        meta["ran"].append({"cmd": "demo with the change", "exit": rc1, "s": t1, "output": (o1 + e1)[-600:]})
        if "--skip-tests" not in a:
            rct, ot, et, tt = sh("/venv/bin/python -m pytest -q -p no:cacheprovider -x -n 6 2>&1 | tail -3", cwd=wt, timeout=3600)
            meta["ran"].append({"cmd": "repository test-suite with the change", "tail": ot.strip()[-200:], "s": tt})
            meta["tests_pass"] = " passed" in ot and "failed" not in ot and "error" not in ot.lower()
        meta["demo_ok"] = rc0 == 0 and rc1 != 0
        meta["checks"] = {}
        for c in checks:
            out = tempfile.mkdtemp(prefix="vfseedout-")
            env2 = dict(os.environ, VERIF_REPO=wt, VERIF_OUT=out)
            rcc, oc, ec, tc = sh([f"{HERE}/check", c, tier], env=env2, timeout=7200)
            first = next((l.strip() for l in oc.splitlines() if l.startswith("  ")), "")
            meta["checks"][c] = {"tier": tier, "exit": rcc, "verdict": {0: "MISSED", 1: "caught", 2: "inconclusive"}.get(rcc, rcc), "s": tc,
                                 "first_violation": first[:400]}
            shutil.rmtree(out, ignore_errors=True)
        print(json.dumps(meta, indent=1))
        if keep:
            dst = f"{HERE}/seeded/{keep}"
            os.makedirs(dst, exist_ok=True)
            shutil.copy(diff, f"{dst}/patch.diff")
            open(f"{dst}/demo.py", "w").write(open(demo).read())
            if os.path.exists(notes):
                shutil.copy(notes, f"{dst}/notes.md")
            meta["needs_to_manifest"] = open(notes).read()[:1500] if os.path.exists(notes) else ""
            json.dump(meta, open(f"{dst}/meta.json", "w"), indent=1)
    finally:
        sh(["git", "-C", "/repo", "worktree", "remove", "--force", wt])
        shutil.rmtree(wt, ignore_errors=True)


if __name__ == "__main__":
    main()
