#!/bin/bash
# Runs the repository's own test-suite with the monitors of each property installed (one property at a time).
# A monitor that fires here is either too strict or a defect the tests do not assert: read the witness.
ids=${@:-C01 C02 C03 C04 C05 C06 C08 C09 C10 C11 C12 C13 C14 C15 C16 C17 C18 C19 C20}
for p in $ids; do
  out=$(cd /repo && VF_PROPS=$p VF_PLUGIN_OUT=/tmp/vf_plugin_$p.json PYTHONPATH=/repo:/verif:/verif/.deps PYTHONHASHSEED=0 timeout 3000 \
        /venv/bin/python -m pytest -p vf.pytest_plugin -p no:cacheprovider tests README.rst -q 2>&1 | grep -E "^\[vf\]|^    |passed|failed|error" | cut -c1-300)
  echo "== $p"; echo "$out"
done
